//! C08 — built-in input validators accept exactly the values satisfying their predicate.
//!
//! One derive-built schema (built once per validation mode) whose arguments and input-object fields carry the
//! validators, with the bounds fixed at compile time and mirrored in `fields()`. A case is a query of 1..3 aliased fields;
//! the observable is the resolver log (alias pushed on invocation) and `Response.errors[*].path`.
//! The oracle evaluates every predicate exactly (integers in i128, float-vs-integer through floor / ceil,
//! float multiples through the binary expansion, byte and scalar counts, hand-written matchers for the three
//! fixed patterns).
use async_graphql::{Context, EmptyMutation, EmptySubscription, InputObject, Name, Number, Object, PathSegment, Request, Schema, ValidationMode, Value, Variables, ID};
use indexmap::IndexMap;
use std::cell::RefCell;
use std::time::Instant;
use vcore::gens::gen_f64_finite;
use vcore::{Case, Ctx, Src};

/// unsigned value above i64::MAX meets an integer-literal bound: compared after a wrapping cast to i64
const F1: &str = "C08-F1";
/// float value that is not an i64 (fractional, or beyond the i64 range) meets an integer-literal bound:
/// compared after a truncating, saturating cast to i64
const F2: &str = "C08-F2";
/// integer value of magnitude above 2^53 meets a float-literal bound: compared after rounding to f64
const F3: &str = "C08-F3";

thread_local! {
    static LOG: RefCell<Vec<String>> = const { RefCell::new(Vec::new()) };
}
fn hit(ctx: &Context<'_>) -> Option<bool> {
    let f = ctx.field();
    let key = f.alias().unwrap_or(f.name()).to_string();
    LOG.with(|l| l.borrow_mut().push(key));
    Some(true)
}

// ------------------------------------------------------------------------------------------------------------
// the schemas (bounds here are mirrored in `fields()` below)

#[derive(InputObject)]
struct In {
    #[graphql(validator(maximum = 10))]
    a: i32,
    #[graphql(validator(min_length = 2))]
    s: String,
    #[graphql(validator(list, minimum = 1))]
    l: Vec<i64>,
    #[graphql(validator(maximum = 1))]
    f: f64,
    #[graphql(validator(max_items = 2))]
    m: Vec<String>,
}
#[derive(InputObject)]
struct Outer {
    inner: In,
    #[graphql(validator(chars_min_length = 1))]
    t: String,
}
#[derive(InputObject)]
struct InU {
    #[graphql(validator(minimum = 5))]
    u: u64,
    #[graphql(validator(list, maximum = 9))]
    l: Vec<u32>,
}

struct Q;
#[Object(rename_fields = "camelCase")]
#[allow(unused_variables)]
impl Q {
    async fn max_i8(&self, ctx: &Context<'_>, #[graphql(validator(maximum = 100))] n: i8) -> Option<bool> {
        hit(ctx)
    }
    async fn min_i8(&self, ctx: &Context<'_>, #[graphql(validator(minimum = 5))] n: i8) -> Option<bool> {
        hit(ctx)
    }
    async fn range_i32(&self, ctx: &Context<'_>, #[graphql(validator(minimum = 3, maximum = 7))] n: i32) -> Option<bool> {
        hit(ctx)
    }
    async fn max_i32(&self, ctx: &Context<'_>, #[graphql(validator(maximum = 2147483646))] n: i32) -> Option<bool> {
        hit(ctx)
    }
    async fn min_i64(&self, ctx: &Context<'_>, #[graphql(validator(minimum = 9007199254740993))] n: i64) -> Option<bool> {
        hit(ctx)
    }
    async fn max_i64(&self, ctx: &Context<'_>, #[graphql(validator(maximum = 0))] n: i64) -> Option<bool> {
        hit(ctx)
    }
    async fn mul_i32(&self, ctx: &Context<'_>, #[graphql(validator(multiple_of = 3))] n: i32) -> Option<bool> {
        hit(ctx)
    }
    async fn mul_i64(&self, ctx: &Context<'_>, #[graphql(validator(multiple_of = 10, maximum = 1000))] n: i64) -> Option<bool> {
        hit(ctx)
    }
    async fn max_i64f(&self, ctx: &Context<'_>, #[graphql(validator(maximum = 9007199254740992.0))] n: i64) -> Option<bool> {
        hit(ctx)
    }
    async fn min_i64f(&self, ctx: &Context<'_>, #[graphql(validator(minimum = 0.5))] n: i64) -> Option<bool> {
        hit(ctx)
    }
    async fn max_f64i(&self, ctx: &Context<'_>, #[graphql(validator(maximum = 10))] n: f64) -> Option<bool> {
        hit(ctx)
    }
    async fn min_f64i(&self, ctx: &Context<'_>, #[graphql(validator(minimum = 0))] n: f64) -> Option<bool> {
        hit(ctx)
    }
    async fn mul_f64i(&self, ctx: &Context<'_>, #[graphql(validator(multiple_of = 2))] n: f64) -> Option<bool> {
        hit(ctx)
    }
    async fn max_f64(&self, ctx: &Context<'_>, #[graphql(validator(maximum = 10.5))] n: f64) -> Option<bool> {
        hit(ctx)
    }
    async fn min_f64(&self, ctx: &Context<'_>, #[graphql(validator(minimum = 0.1))] n: f64) -> Option<bool> {
        hit(ctx)
    }
    async fn mul_f64(&self, ctx: &Context<'_>, #[graphql(validator(multiple_of = 2.5))] n: f64) -> Option<bool> {
        hit(ctx)
    }
    async fn max_f32(&self, ctx: &Context<'_>, #[graphql(validator(maximum = 0.1))] n: f32) -> Option<bool> {
        hit(ctx)
    }
    async fn min_f32i(&self, ctx: &Context<'_>, #[graphql(validator(minimum = 16777216))] n: f32) -> Option<bool> {
        hit(ctx)
    }
    async fn max_len(&self, ctx: &Context<'_>, #[graphql(validator(max_length = 5))] n: String) -> Option<bool> {
        hit(ctx)
    }
    async fn min_len(&self, ctx: &Context<'_>, #[graphql(validator(min_length = 3))] n: String) -> Option<bool> {
        hit(ctx)
    }
    async fn chars_max(&self, ctx: &Context<'_>, #[graphql(validator(chars_max_length = 5))] n: String) -> Option<bool> {
        hit(ctx)
    }
    async fn chars_min(&self, ctx: &Context<'_>, #[graphql(validator(chars_min_length = 3))] n: String) -> Option<bool> {
        hit(ctx)
    }
    async fn len_all(&self, ctx: &Context<'_>, #[graphql(validator(min_length = 2, max_length = 6, chars_max_length = 4))] n: String) -> Option<bool> {
        hit(ctx)
    }
    async fn re_digits(&self, ctx: &Context<'_>, #[graphql(validator(regex = "^[0-9]+$"))] n: String) -> Option<bool> {
        hit(ctx)
    }
    async fn re_abc(&self, ctx: &Context<'_>, #[graphql(validator(regex = "ab+c"))] n: String) -> Option<bool> {
        hit(ctx)
    }
    async fn re_counted(&self, ctx: &Context<'_>, #[graphql(validator(regex = "^[a-c]{2,4}x?$"))] n: String) -> Option<bool> {
        hit(ctx)
    }
    async fn id_len(&self, ctx: &Context<'_>, #[graphql(validator(max_length = 4))] n: ID) -> Option<bool> {
        hit(ctx)
    }
    async fn max_items(&self, ctx: &Context<'_>, #[graphql(validator(max_items = 3))] n: Vec<i32>) -> Option<bool> {
        hit(ctx)
    }
    async fn min_items(&self, ctx: &Context<'_>, #[graphql(validator(min_items = 2))] n: Vec<String>) -> Option<bool> {
        hit(ctx)
    }
    async fn list_max(&self, ctx: &Context<'_>, #[graphql(validator(list, maximum = 3))] n: Vec<i32>) -> Option<bool> {
        hit(ctx)
    }
    async fn list_str(&self, ctx: &Context<'_>, #[graphql(validator(list, max_length = 3, max_items = 2))] n: Vec<String>) -> Option<bool> {
        hit(ctx)
    }
    async fn list_re(&self, ctx: &Context<'_>, #[graphql(validator(list, regex = "^[0-9]+$"))] n: Vec<String>) -> Option<bool> {
        hit(ctx)
    }
    async fn list_f(&self, ctx: &Context<'_>, #[graphql(validator(list, minimum = 1, min_items = 1))] n: Vec<f64>) -> Option<bool> {
        hit(ctx)
    }
    async fn opt_list(&self, ctx: &Context<'_>, #[graphql(validator(list, multiple_of = 5))] n: Option<Vec<i64>>) -> Option<bool> {
        hit(ctx)
    }
    async fn min_i8_neg(&self, ctx: &Context<'_>, #[graphql(validator(minimum = -5))] n: i8) -> Option<bool> {
        hit(ctx)
    }
    async fn max_i64_neg(&self, ctx: &Context<'_>, #[graphql(validator(maximum = -9007199254740993))] n: i64) -> Option<bool> {
        hit(ctx)
    }
    async fn mul_i64_neg(&self, ctx: &Context<'_>, #[graphql(validator(multiple_of = -3))] n: i64) -> Option<bool> {
        hit(ctx)
    }
    async fn min_f64_neg(&self, ctx: &Context<'_>, #[graphql(validator(minimum = -2.25))] n: f64) -> Option<bool> {
        hit(ctx)
    }
    async fn min_f64i_neg(&self, ctx: &Context<'_>, #[graphql(validator(minimum = -1))] n: f64) -> Option<bool> {
        hit(ctx)
    }
    async fn max_f64i_neg(&self, ctx: &Context<'_>, #[graphql(validator(maximum = -1))] n: f64) -> Option<bool> {
        hit(ctx)
    }
    async fn min_u64_neg(&self, ctx: &Context<'_>, #[graphql(validator(minimum = -1))] n: u64) -> Option<bool> {
        hit(ctx)
    }
    async fn obj(&self, ctx: &Context<'_>, input: In) -> Option<bool> {
        hit(ctx)
    }
    async fn nested(&self, ctx: &Context<'_>, input: Outer) -> Option<bool> {
        hit(ctx)
    }
    async fn max_u64(&self, ctx: &Context<'_>, #[graphql(validator(maximum = 100))] n: u64) -> Option<bool> {
        hit(ctx)
    }
    async fn min_u64(&self, ctx: &Context<'_>, #[graphql(validator(minimum = 100))] n: u64) -> Option<bool> {
        hit(ctx)
    }
    async fn max_u64_big(&self, ctx: &Context<'_>, #[graphql(validator(maximum = 9223372036854775807))] n: u64) -> Option<bool> {
        hit(ctx)
    }
    async fn mul_u64(&self, ctx: &Context<'_>, #[graphql(validator(multiple_of = 7))] n: u64) -> Option<bool> {
        hit(ctx)
    }
    async fn max_u8(&self, ctx: &Context<'_>, #[graphql(validator(maximum = 200))] n: u8) -> Option<bool> {
        hit(ctx)
    }
    async fn min_u16(&self, ctx: &Context<'_>, #[graphql(validator(minimum = 1000))] n: u16) -> Option<bool> {
        hit(ctx)
    }
    async fn max_u32(&self, ctx: &Context<'_>, #[graphql(validator(maximum = 4294967294))] n: u32) -> Option<bool> {
        hit(ctx)
    }
    async fn max_usize(&self, ctx: &Context<'_>, #[graphql(validator(maximum = 100))] n: usize) -> Option<bool> {
        hit(ctx)
    }
    async fn max_u64f(&self, ctx: &Context<'_>, #[graphql(validator(maximum = 1e19))] n: u64) -> Option<bool> {
        hit(ctx)
    }
    async fn list_u64(&self, ctx: &Context<'_>, #[graphql(validator(list, minimum = 1))] n: Vec<u64>) -> Option<bool> {
        hit(ctx)
    }
    async fn obj_u(&self, ctx: &Context<'_>, input: InU) -> Option<bool> {
        hit(ctx)
    }
}

// ------------------------------------------------------------------------------------------------------------
// the mirror table

#[derive(Clone, Copy, Debug, PartialEq)]
enum Re {
    /// ^[0-9]+$
    Digits,
    /// ab+c (unanchored)
    Abc,
    /// ^[a-c]{2,4}x?$
    Counted,
}
#[derive(Clone, Copy, Debug, PartialEq)]
enum P {
    MaxI(i64),
    MinI(i64),
    MulI(i64),
    MaxF(f64),
    MinF(f64),
    /// multiple_of = half / 2 (a float literal)
    MulHalves(i64),
    MaxLen(usize),
    MinLen(usize),
    CharsMax(usize),
    CharsMin(usize),
    MaxItems(usize),
    MinItems(usize),
    Regex(Re),
}
#[derive(Clone, Copy, Debug, PartialEq)]
enum K {
    Int { lo: i128, hi: i128 },
    F32,
    F64,
    Str,
}
const I8: K = K::Int { lo: i8::MIN as i128, hi: i8::MAX as i128 };
const I32: K = K::Int { lo: i32::MIN as i128, hi: i32::MAX as i128 };
const I64: K = K::Int { lo: i64::MIN as i128, hi: i64::MAX as i128 };
const U8: K = K::Int { lo: 0, hi: u8::MAX as i128 };
const U16: K = K::Int { lo: 0, hi: u16::MAX as i128 };
const U32: K = K::Int { lo: 0, hi: u32::MAX as i128 };
const U64: K = K::Int { lo: 0, hi: u64::MAX as i128 };

/// an argument or input-object field carrying validators
#[derive(Clone, Debug)]
struct Slot {
    k: K,
    /// the value is a list of `k`
    is_list: bool,
    /// the `list` flag: element predicates apply to every element
    elemwise: bool,
    preds: Vec<P>,
}
#[derive(Clone, Debug)]
enum Sh {
    Leaf(Slot),
    Obj(Vec<(&'static str, Sh)>),
}
#[derive(Clone, Debug)]
struct Field {
    name: &'static str,
    arg: &'static str,
    /// GraphQL type of the argument (for variable declarations)
    gql: &'static str,
    sh: Sh,
}

fn one(k: K, preds: &[P]) -> Sh {
    Sh::Leaf(Slot { k, is_list: false, elemwise: false, preds: preds.to_vec() })
}
fn list(k: K, elemwise: bool, preds: &[P]) -> Sh {
    Sh::Leaf(Slot { k, is_list: true, elemwise, preds: preds.to_vec() })
}
fn shape_in() -> Sh {
    Sh::Obj(vec![
        ("a", one(I32, &[P::MaxI(10)])),
        ("s", one(K::Str, &[P::MinLen(2)])),
        ("l", list(I64, true, &[P::MinI(1)])),
        ("f", one(K::F64, &[P::MaxI(1)])),
        ("m", list(K::Str, false, &[P::MaxItems(2)])),
    ])
}

fn fields() -> Vec<Field> {
    let f = |name, gql, sh| Field { name, arg: "n", gql, sh };
    vec![
        f("maxI8", "Int!", one(I8, &[P::MaxI(100)])),
        f("minI8", "Int!", one(I8, &[P::MinI(5)])),
        f("rangeI32", "Int!", one(I32, &[P::MinI(3), P::MaxI(7)])),
        f("maxI32", "Int!", one(I32, &[P::MaxI(2147483646)])),
        f("minI64", "Int!", one(I64, &[P::MinI(9007199254740993)])),
        f("maxI64", "Int!", one(I64, &[P::MaxI(0)])),
        f("mulI32", "Int!", one(I32, &[P::MulI(3)])),
        f("mulI64", "Int!", one(I64, &[P::MulI(10), P::MaxI(1000)])),
        f("maxI64f", "Int!", one(I64, &[P::MaxF(9007199254740992.0)])),
        f("minI64f", "Int!", one(I64, &[P::MinF(0.5)])),
        f("maxF64i", "Float!", one(K::F64, &[P::MaxI(10)])),
        f("minF64i", "Float!", one(K::F64, &[P::MinI(0)])),
        f("mulF64i", "Float!", one(K::F64, &[P::MulI(2)])),
        f("maxF64", "Float!", one(K::F64, &[P::MaxF(10.5)])),
        f("minF64", "Float!", one(K::F64, &[P::MinF(0.1)])),
        f("mulF64", "Float!", one(K::F64, &[P::MulHalves(5)])),
        f("maxF32", "Float!", one(K::F32, &[P::MaxF(0.1)])),
        f("minF32i", "Float!", one(K::F32, &[P::MinI(16777216)])),
        f("maxLen", "String!", one(K::Str, &[P::MaxLen(5)])),
        f("minLen", "String!", one(K::Str, &[P::MinLen(3)])),
        f("charsMax", "String!", one(K::Str, &[P::CharsMax(5)])),
        f("charsMin", "String!", one(K::Str, &[P::CharsMin(3)])),
        f("lenAll", "String!", one(K::Str, &[P::MinLen(2), P::MaxLen(6), P::CharsMax(4)])),
        f("reDigits", "String!", one(K::Str, &[P::Regex(Re::Digits)])),
        f("reAbc", "String!", one(K::Str, &[P::Regex(Re::Abc)])),
        f("reCounted", "String!", one(K::Str, &[P::Regex(Re::Counted)])),
        f("idLen", "ID!", one(K::Str, &[P::MaxLen(4)])),
        f("maxItems", "[Int!]!", list(I32, false, &[P::MaxItems(3)])),
        f("minItems", "[String!]!", list(K::Str, false, &[P::MinItems(2)])),
        f("listMax", "[Int!]!", list(I32, true, &[P::MaxI(3)])),
        f("listStr", "[String!]!", list(K::Str, true, &[P::MaxLen(3), P::MaxItems(2)])),
        f("listRe", "[String!]!", list(K::Str, true, &[P::Regex(Re::Digits)])),
        f("listF", "[Float!]!", list(K::F64, true, &[P::MinI(1), P::MinItems(1)])),
        f("optList", "[Int!]", list(I64, true, &[P::MulI(5)])),
        f("minI8Neg", "Int!", one(I8, &[P::MinI(-5)])),
        f("maxI64Neg", "Int!", one(I64, &[P::MaxI(-9007199254740993)])),
        f("mulI64Neg", "Int!", one(I64, &[P::MulI(-3)])),
        f("minF64Neg", "Float!", one(K::F64, &[P::MinF(-2.25)])),
        f("minF64iNeg", "Float!", one(K::F64, &[P::MinI(-1)])),
        f("maxF64iNeg", "Float!", one(K::F64, &[P::MaxI(-1)])),
        f("minU64Neg", "Int!", one(U64, &[P::MinI(-1)])),
        Field { name: "obj", arg: "input", gql: "In!", sh: shape_in() },
        Field {
            name: "nested",
            arg: "input",
            gql: "Outer!",
            sh: Sh::Obj(vec![("inner", shape_in()), ("t", one(K::Str, &[P::CharsMin(1)]))]),
        },
        f("maxU64", "Int!", one(U64, &[P::MaxI(100)])),
        f("minU64", "Int!", one(U64, &[P::MinI(100)])),
        f("maxU64Big", "Int!", one(U64, &[P::MaxI(i64::MAX)])),
        f("mulU64", "Int!", one(U64, &[P::MulI(7)])),
        f("maxU8", "Int!", one(U8, &[P::MaxI(200)])),
        f("minU16", "Int!", one(U16, &[P::MinI(1000)])),
        f("maxU32", "Int!", one(U32, &[P::MaxI(4294967294)])),
        f("maxUsize", "Int!", one(U64, &[P::MaxI(100)])),
        f("maxU64f", "Int!", one(U64, &[P::MaxF(1e19)])),
        f("listU64", "[Int!]!", list(U64, true, &[P::MinI(1)])),
        Field {
            name: "objU",
            arg: "input",
            gql: "InU!",
            sh: Sh::Obj(vec![("u", one(U64, &[P::MinI(5)])), ("l", list(U32, true, &[P::MaxI(9)]))]),
        },
    ]
}

// ------------------------------------------------------------------------------------------------------------
// values and the exact oracle

#[derive(Clone, Debug, PartialEq)]
enum V {
    I(i128),
    /// for an f32 slot the number is exactly representable in f32
    F(f64),
    S(String),
    L(Vec<V>),
    O(Vec<(&'static str, V)>),
}

/// one flag per finding: which conversion quirks are switched on / which findings are open / which constructs occur
#[derive(Clone, Copy, Default, PartialEq, Debug)]
struct Quirks {
    f1: bool,
    f2: bool,
    f3: bool,
}

const TWO53: i128 = 1 << 53;

/// `(f * 2^shift) mod m` if `f * 2^shift` is an integer (else None), exact for every finite magnitude
fn f64_mod(f: f64, shift: i32, m: i128) -> Option<i128> {
    if f == 0.0 {
        return Some(0);
    }
    let bits = f.to_bits();
    let exp = ((bits >> 52) & 0x7ff) as i32;
    let frac = (bits & ((1u64 << 52) - 1)) as i128;
    let (mant, e) = if exp == 0 { (frac, -1074 + shift) } else { (frac | (1 << 52), exp - 1075 + shift) };
    let sign = if f < 0.0 { -1 } else { 1 };
    if e >= 0 {
        let mut r = mant % m;
        for _ in 0..e {
            r = (r * 2) % m;
        }
        Some(sign * r)
    } else if -e >= 64 || mant & ((1i128 << -e) - 1) != 0 {
        None
    } else {
        Some(sign * ((mant >> -e) % m))
    }
}

fn re_match(re: Re, s: &str) -> bool {
    let cs: Vec<char> = s.chars().collect();
    match re {
        Re::Digits => !cs.is_empty() && cs.iter().all(|c| c.is_ascii_digit()),
        Re::Abc => (0..cs.len()).any(|i| {
            if cs[i] != 'a' {
                return false;
            }
            let mut j = i + 1;
            while j < cs.len() && cs[j] == 'b' {
                j += 1;
            }
            j > i + 1 && j < cs.len() && cs[j] == 'c'
        }),
        Re::Counted => {
            let body: &[char] = if cs.last() == Some(&'x') { &cs[..cs.len() - 1] } else { &cs };
            (2..=4).contains(&body.len()) && body.iter().all(|c| ('a'..='c').contains(c))
        }
    }
}

/// one predicate on one non-list value; `q` switches the implementation's lossy conversions on
fn pred(p: P, v: &V, q: Quirks) -> bool {
    match (p, v) {
        (P::MaxI(b), V::I(x)) => int_for_int_bound(*x, q) <= b as i128,
        (P::MinI(b), V::I(x)) => int_for_int_bound(*x, q) >= b as i128,
        (P::MulI(m), V::I(x)) => int_for_int_bound(*x, q) % m as i128 == 0,
        (P::MaxI(b), V::F(f)) => {
            if q.f2 {
                (*f as i64) <= b
            } else {
                f.ceil() as i128 <= b as i128 // f <= b  <=>  ceil(f) <= b for integer b
            }
        }
        (P::MinI(b), V::F(f)) => {
            if q.f2 {
                (*f as i64) >= b
            } else {
                f.floor() as i128 >= b as i128
            }
        }
        (P::MulI(m), V::F(f)) => {
            if q.f2 {
                let t = *f as i64;
                t != 0 && t % m == 0
            } else {
                f64_mod(*f, 0, m as i128) == Some(0)
            }
        }
        (P::MaxF(b), V::I(x)) => {
            if q.f3 {
                (*x as f64) <= b
            } else {
                *x <= b.floor() as i128 // x <= b  <=>  x <= floor(b) for integer x
            }
        }
        (P::MinF(b), V::I(x)) => {
            if q.f3 {
                (*x as f64) >= b
            } else {
                *x >= b.ceil() as i128
            }
        }
        (P::MaxF(b), V::F(f)) => *f <= b,
        (P::MinF(b), V::F(f)) => *f >= b,
        // f is a multiple of h/2  <=>  2f is an integer multiple of h
        (P::MulHalves(h), V::F(f)) => f64_mod(*f, 1, h as i128) == Some(0),
        (P::MaxLen(n), V::S(s)) => s.len() <= n,
        (P::MinLen(n), V::S(s)) => s.len() >= n,
        (P::CharsMax(n), V::S(s)) => s.chars().count() <= n,
        (P::CharsMin(n), V::S(s)) => s.chars().count() >= n,
        (P::Regex(r), V::S(s)) => re_match(r, s),
        _ => panic!("table error: predicate {:?} on value {:?}", p, v),
    }
}
fn int_for_int_bound(x: i128, q: Quirks) -> i128 {
    if q.f1 && x > i64::MAX as i128 {
        x - (1i128 << 64) // wrapping cast u64 -> i64
    } else {
        x
    }
}

fn eval(sh: &Sh, v: &V, q: Quirks) -> bool {
    match (sh, v) {
        (Sh::Obj(fs), V::O(vs)) => fs.iter().zip(vs).all(|((_, s), (_, x))| eval(s, x, q)),
        (Sh::Leaf(sl), V::L(items)) if sl.is_list => sl.preds.iter().all(|p| match p {
            P::MaxItems(n) => items.len() <= *n,
            P::MinItems(n) => items.len() >= *n,
            p => {
                assert!(sl.elemwise, "table error: element predicate without list flag");
                items.iter().all(|x| pred(*p, x, q))
            }
        }),
        (Sh::Leaf(sl), x) if !sl.is_list => sl.preds.iter().all(|p| pred(*p, x, q)),
        _ => panic!("table error: shape {:?} value {:?}", sh, v),
    }
}

/// which finding constructs does this value contain (value class meets bound class)?
fn constructs(sh: &Sh, v: &V, out: &mut Quirks) {
    match (sh, v) {
        (Sh::Obj(fs), V::O(vs)) => fs.iter().zip(vs).for_each(|((_, s), (_, x))| constructs(s, x, out)),
        (Sh::Leaf(sl), V::L(items)) => items.iter().for_each(|x| leaf_constructs(sl, x, out)),
        (Sh::Leaf(sl), x) => leaf_constructs(sl, x, out),
        _ => {}
    }
}
fn leaf_constructs(sl: &Slot, v: &V, out: &mut Quirks) {
    let int_bound = sl.preds.iter().any(|p| matches!(p, P::MaxI(_) | P::MinI(_) | P::MulI(_)));
    let float_bound = sl.preds.iter().any(|p| matches!(p, P::MaxF(_) | P::MinF(_) | P::MulHalves(_)));
    match v {
        V::I(x) => {
            out.f1 |= int_bound && *x > i64::MAX as i128;
            out.f3 |= float_bound && x.abs() > TWO53;
        }
        V::F(f) => out.f2 |= int_bound && !f64_is_i64(*f),
        _ => {}
    }
}
fn f64_is_i64(f: f64) -> bool {
    f.fract() == 0.0 && f >= -9223372036854775808.0 && f < 9223372036854775808.0
}

/// is some scalar at, or one step from, a bound of one of its predicates (the interesting neighbourhood)?
fn near_bound(sh: &Sh, v: &V) -> bool {
    match (sh, v) {
        (Sh::Obj(fs), V::O(vs)) => fs.iter().zip(vs).any(|((_, s), (_, x))| near_bound(s, x)),
        (Sh::Leaf(sl), V::L(items)) => {
            sl.preds.iter().any(|p| matches!(p, P::MaxItems(n) | P::MinItems(n) if items.len().abs_diff(*n) <= 1)) || items.iter().any(|x| leaf_near(sl, x))
        }
        (Sh::Leaf(sl), x) => leaf_near(sl, x),
        _ => false,
    }
}
fn leaf_near(sl: &Slot, v: &V) -> bool {
    sl.preds.iter().any(|p| match (p, v) {
        (P::MaxI(b) | P::MinI(b), V::I(x)) => (x - *b as i128).abs() <= 1,
        (P::MaxI(b) | P::MinI(b), V::F(f)) => (f - *b as f64).abs() <= 1.0,
        (P::MaxF(b) | P::MinF(b), V::I(x)) => (*x as f64 - b).abs() <= 1.0,
        (P::MaxF(b) | P::MinF(b), V::F(f)) => (f - b).abs() <= 1.0,
        (P::MulI(m), V::I(x)) => (x % *m as i128).abs() <= 1 || (x % *m as i128).abs() == (*m as i128).abs() - 1,
        (P::MulI(_) | P::MulHalves(_), V::F(_)) => true,
        (P::MaxLen(n) | P::MinLen(n), V::S(s)) => s.len().abs_diff(*n) <= 1,
        (P::CharsMax(n) | P::CharsMin(n), V::S(s)) => s.chars().count().abs_diff(*n) <= 1,
        (P::Regex(_), V::S(_)) => true,
        _ => false,
    })
}

// ------------------------------------------------------------------------------------------------------------
// generators

/// which constructs the generator may produce: those of the three findings, and unsigned values above i64::MAX at
/// all (strict validation rejects them as not of type Int before any validator runs)
#[derive(Clone, Copy, Default)]
struct Allow {
    f1: bool,
    f2: bool,
    f3: bool,
    above_i64: bool,
}

fn next_up(f: f64) -> f64 {
    if f == 0.0 {
        return 5e-324;
    }
    let b = f.to_bits();
    f64::from_bits(if f > 0.0 { b + 1 } else { b - 1 })
}
fn next_down(f: f64) -> f64 {
    -next_up(-f)
}

fn int_candidates(sl: &Slot, lo: i128, hi: i128) -> Vec<i128> {
    let mut c = vec![0, 1, -1, 2, lo, lo + 1, hi, hi - 1, i64::MAX as i128 - 1, i64::MAX as i128, i64::MAX as i128 + 1, i64::MAX as i128 + 2, (1i128 << 63) + 100, u64::MAX as i128 - 5, TWO53 - 1, TWO53, TWO53 + 1, -TWO53 - 1];
    for p in &sl.preds {
        match p {
            P::MaxI(b) | P::MinI(b) => c.extend((-2..=2).map(|d| *b as i128 + d)),
            P::MulI(m) => {
                for k in [1i128, 2, -1, -3, 14, 1000, 1 << 40, (1i128 << 63) / *m as i128 + 1, u64::MAX as i128 / *m as i128] {
                    c.extend([k * *m as i128 - 1, k * *m as i128, k * *m as i128 + 1]);
                }
            }
            P::MaxF(b) | P::MinF(b) => {
                c.extend((-2..=2).map(|d| b.floor() as i128 + d));
                c.push(b.ceil() as i128);
            }
            _ => {}
        }
    }
    c
}

fn gen_int(sl: &Slot, lo: i128, hi: i128, s: &mut dyn Src, allow: Allow) -> i128 {
    let c = int_candidates(sl, lo, hi);
    let mut v = match s.weighted(&[6, 1, 1]) {
        0 => c[s.choose(c.len())],
        1 => s.range(-20, 20) as i128,
        _ => {
            if hi > i64::MAX as i128 {
                s.u64() as i128
            } else {
                s.range(lo.max(i64::MIN as i128) as i64, hi as i64) as i128
            }
        }
    };
    v = v.clamp(lo, hi);
    let int_bound = sl.preds.iter().any(|p| matches!(p, P::MaxI(_) | P::MinI(_) | P::MulI(_)));
    let float_bound = sl.preds.iter().any(|p| matches!(p, P::MaxF(_) | P::MinF(_)));
    if (!allow.above_i64 || (!allow.f1 && int_bound)) && v > i64::MAX as i128 {
        v = i64::MAX as i128 - (v & 0xff);
    }
    if !allow.f3 && float_bound && v.abs() > TWO53 {
        v = v.signum() * (TWO53 - (v.abs() & 0xff));
    }
    if v == 0 {
        // multiple_of with value 0 is unspecified: never offered
        if let Some(P::MulI(m)) = sl.preds.iter().find(|p| matches!(p, P::MulI(_))) {
            v = *m as i128;
        }
    }
    v
}

fn gen_float(sl: &Slot, s: &mut dyn Src, allow: Allow) -> f64 {
    let mut c = vec![0.5, -0.5, 1.0, -1.0, 1e300, -1e300, 1e-300, 9.223372036854775807e18, -9.223372036854775808e18, 9007199254740992.0];
    for p in &sl.preds {
        let b = match p {
            P::MaxI(b) | P::MinI(b) => *b as f64,
            P::MaxF(b) | P::MinF(b) => *b,
            P::MulI(m) => {
                let m = *m as f64;
                c.extend([m, 2.0 * m, -m, m + 0.5, 2.0 * m + 0.5, m * 1e15, m * 3e20, 1e300, m * 0.5, 3.0 * m - 0.25]);
                continue;
            }
            P::MulHalves(h) => {
                let m = *h as f64 / 2.0;
                c.extend([m, 2.0 * m, -m, 3.0 * m, m + 0.5, m * 0.5, next_up(m), m * 1e15, m * 4.0 + 0.25]);
                continue;
            }
            _ => continue,
        };
        c.extend([b, b + 0.5, b - 0.5, b + 1.0, b - 1.0, b + 0.25, b - 0.25, next_up(b), next_down(b), b + 1e-9, b - 1e-9]);
    }
    let mut f = match s.weighted(&[6, 1, 1]) {
        0 => c[s.choose(c.len())],
        1 => s.range(-80, 80) as f64 / 4.0,
        _ => gen_f64_finite(s),
    };
    if sl.k == K::F32 {
        // the value of an f32 slot is an f32: offer only numbers that are one
        let g = f as f32;
        f = if g.is_finite() { g as f64 } else { f32::MAX as f64 * f.signum() };
    }
    let int_bound = sl.preds.iter().any(|p| matches!(p, P::MaxI(_) | P::MinI(_) | P::MulI(_)));
    if !allow.f2 && int_bound && !f64_is_i64(f) {
        f = f.round().clamp(-9.0e18, 9.0e18);
    }
    if f == 0.0 {
        match sl.preds.iter().find(|p| matches!(p, P::MulI(_) | P::MulHalves(_))) {
            Some(P::MulI(m)) => f = *m as f64,
            Some(P::MulHalves(h)) => f = *h as f64 / 2.0,
            _ => {}
        }
    }
    f
}

fn gen_str(sl: &Slot, s: &mut dyn Src) -> String {
    if let Some(P::Regex(re)) = sl.preds.iter().find(|p| matches!(p, P::Regex(_))) {
        let alphabet: &[char] = match re {
            Re::Digits => &['0', '1', '9', '5', '7', 'a', '\n', '٣', ' ', '-'],
            Re::Abc => &['a', 'b', 'c', 'b', 'x', 'B'],
            Re::Counted => &['a', 'b', 'c', 'x', 'd', 'A'],
        };
        // index 0..k of the alphabet are the "matching" letters; bias towards them
        let n = s.choose(7);
        return (0..n).map(|_| alphabet[if s.chance(1, 5) { s.choose(alphabet.len()) } else { s.choose(4.min(alphabet.len())) }]).collect();
    }
    let mut counts: Vec<usize> = vec![0, 1];
    for p in &sl.preds {
        if let P::MaxLen(n) | P::MinLen(n) | P::CharsMax(n) | P::CharsMin(n) = p {
            for w in 1..=4 {
                counts.extend([(n / w).saturating_sub(1), n / w, n / w + 1]);
            }
            counts.push(n + 3);
        }
    }
    let n = counts[s.choose(counts.len())];
    // width profile: ASCII, 2-, 3-, 4-byte scalars, or mixed
    let profile = s.choose(5);
    let wide = ['a', 'é', '中', '😀'];
    (0..n).map(|_| if profile == 4 { wide[s.choose(4)] } else { wide[profile] }).collect()
}

fn gen_scalar(sl: &Slot, s: &mut dyn Src, allow: Allow) -> V {
    match sl.k {
        K::Int { lo, hi } => V::I(gen_int(sl, lo, hi, s, allow)),
        K::F32 | K::F64 => V::F(gen_float(sl, s, allow)),
        K::Str => V::S(gen_str(sl, s)),
    }
}

fn gen_value(sh: &Sh, s: &mut dyn Src, allow: Allow) -> V {
    match sh {
        Sh::Obj(fs) => V::O(fs.iter().map(|(n, f)| (*n, gen_value(f, s, allow))).collect()),
        Sh::Leaf(sl) if sl.is_list => {
            let mut lens = vec![1usize, 0, 2, 3];
            for p in &sl.preds {
                if let P::MaxItems(n) | P::MinItems(n) = p {
                    lens.extend([n.saturating_sub(1), *n, n + 1, n + 2]);
                }
            }
            let n = lens[s.choose(lens.len())];
            V::L((0..n).map(|_| gen_scalar(sl, s, allow)).collect())
        }
        Sh::Leaf(sl) => gen_scalar(sl, s, allow),
    }
}

// ------------------------------------------------------------------------------------------------------------
// rendering, execution, judgement

fn lit_string(s: &str) -> String {
    let mut out = String::from("\"");
    for c in s.chars() {
        match c {
            '"' => out.push_str("\\\""),
            '\\' => out.push_str("\\\\"),
            c if (c as u32) < 0x20 || c as u32 == 0x7f => out.push_str(&format!("\\u{:04x}", c as u32)),
            c => out.push(c),
        }
    }
    out.push('"');
    out
}
fn literal(v: &V) -> String {
    match v {
        V::I(x) => x.to_string(),
        V::F(f) => format!("{:?}", f), // always carries a fraction or an exponent
        V::S(s) => lit_string(s),
        V::L(xs) => format!("[{}]", xs.iter().map(literal).collect::<Vec<_>>().join(", ")),
        V::O(fs) => format!("{{{}}}", fs.iter().map(|(n, x)| format!("{}: {}", n, literal(x))).collect::<Vec<_>>().join(", ")),
    }
}
fn to_const(v: &V) -> Value {
    match v {
        V::I(x) => Value::Number(if *x >= 0 { Number::from(*x as u64) } else { Number::from(*x as i64) }),
        V::F(f) => Value::Number(Number::from_f64(*f).expect("finite")),
        V::S(s) => Value::String(s.clone()),
        V::L(xs) => Value::List(xs.iter().map(to_const).collect()),
        V::O(fs) => Value::Object(fs.iter().map(|(n, x)| (Name::new(*n), to_const(x))).collect::<IndexMap<_, _>>()),
    }
}

/// [strict, fast]
type Schemas = [Schema<Q, EmptyMutation, EmptySubscription>; 2];
fn schemas() -> Schemas {
    [
        Schema::build(Q, EmptyMutation, EmptySubscription).validation_mode(ValidationMode::Strict).finish(),
        Schema::build(Q, EmptyMutation, EmptySubscription).validation_mode(ValidationMode::Fast).finish(),
    ]
}

/// one aliased field of a query
struct Inst<'a> {
    field: &'a Field,
    value: V,
    by_variable: bool,
}

/// run one query and judge every instance
fn run_query(sc: &Schemas, insts: &[Inst], fast: bool, open: Quirks) -> Case {
    let mut decls = vec![];
    let mut sel = vec![];
    let mut vars = IndexMap::new();
    for (i, inst) in insts.iter().enumerate() {
        let arg = if inst.by_variable {
            decls.push(format!("$v{}: {}", i, inst.field.gql));
            vars.insert(Name::new(format!("v{}", i)), to_const(&inst.value));
            format!("$v{}", i)
        } else {
            literal(&inst.value)
        };
        sel.push(format!("a{}: {}({}: {})", i, inst.field.name, inst.field.arg, arg));
    }
    let query = if decls.is_empty() { format!("{{ {} }}", sel.join(" ")) } else { format!("query({}) {{ {} }}", decls.join(", "), sel.join(" ")) };
    let vars_text = Value::Object(vars.clone()).to_string();
    let text = format!("mode={} query={} variables={}", if fast { "fast" } else { "strict" }, query, vars_text);
    let req = Request::new(query).variables(Variables::from_value(Value::Object(vars)));
    LOG.with(|l| l.borrow_mut().clear());
    let resp = vcore::det::block_on(sc[fast as usize].execute(req));
    let log = LOG.with(|l| l.borrow().clone());

    let mut known: Vec<String> = vec![];
    let mut case_classes: Vec<&'static str> = vec![];
    let mut nontrivial = false;
    // errors must all point at one of the aliases
    for e in &resp.errors {
        let ok = matches!(e.path.as_slice(), [PathSegment::Field(a)] if a.len() >= 2 && a[1..].parse::<usize>().map(|i| i < insts.len()).unwrap_or(false));
        if !ok {
            return Case::fail(text, format!("error that names no field of the query: path={:?} message={}", e.path, e.message));
        }
    }
    for (i, inst) in insts.iter().enumerate() {
        let alias = format!("a{}", i);
        let calls = log.iter().filter(|a| **a == alias).count();
        let errs: Vec<&str> = resp.errors.iter().filter(|e| matches!(e.path.as_slice(), [PathSegment::Field(a)] if *a == alias)).map(|e| e.message.as_str()).collect();
        // Some(true): the resolver ran; Some(false): a field error names it; None: neither (a sibling's error ended
        // the request first -- the executor stops at the first failing root field, which is not this property's subject)
        let actual = match (calls, errs.len()) {
            (1, 0) => true,
            (0, 1) => false,
            (0, 0) if insts.len() > 1 && !resp.errors.is_empty() => {
                case_classes.push("multi:cut-short-by-sibling-error");
                if eval(&inst.field.sh, &inst.value, Quirks::default()) {
                    case_classes.push("expect:reaches-resolver");
                } else {
                    case_classes.push("expect:field-error");
                }
                continue;
            }
            _ => return Case::fail(text, format!("{}: neither one resolver call nor one field error: resolver calls={} errors at its path={:?} all errors={}", alias, calls, errs, resp.errors.len())),
        };
        if resp.errors.is_empty() {
            let data_true = matches!(&resp.data, Value::Object(o) if o.get(alias.as_str()) == Some(&Value::Boolean(true)));
            if !data_true {
                return Case::fail(text, format!("{}: no error but the field's data is not `true`: data={}", alias, resp.data));
            }
        }
        let spec = eval(&inst.field.sh, &inst.value, Quirks::default());
        let mut present = Quirks::default();
        constructs(&inst.field.sh, &inst.value, &mut present);
        if present.f1 {
            case_classes.push("construct:unsigned-above-i64max-vs-int-bound");
        }
        if present.f2 {
            case_classes.push("construct:non-i64-float-vs-int-bound");
        }
        if present.f3 {
            case_classes.push("construct:int-above-2^53-vs-float-bound");
        }
        nontrivial |= near_bound(&inst.field.sh, &inst.value) || present != Quirks::default();
        case_classes.push(if spec { "expect:reaches-resolver" } else { "expect:field-error" });
        if let V::L(items) = &inst.value {
            if let Sh::Leaf(sl) = &inst.field.sh {
                let first_ok_later_bad = sl.elemwise
                    && items.len() >= 2
                    && sl.preds.iter().filter(|p| !matches!(p, P::MaxItems(_) | P::MinItems(_))).all(|p| pred(*p, &items[0], Quirks::default()))
                    && !spec;
                if first_ok_later_bad {
                    case_classes.push("list:first-element-ok-later-fails");
                }
                if items.is_empty() {
                    case_classes.push("list:empty");
                }
            }
        }
        if actual == spec {
            continue;
        }
        // deviation: is it exactly what the open findings whose construct is present predict?
        let cand = [(F1, present.f1 && open.f1), (F2, present.f2 && open.f2), (F3, present.f3 && open.f3)];
        let mut explained = None;
        'subsets: for size in 1..=3 {
            for mask in 1u32..8 {
                if mask.count_ones() != size || (0..3).any(|b| mask & (1 << b) != 0 && !cand[b].1) {
                    continue;
                }
                let q = Quirks { f1: mask & 1 != 0, f2: mask & 2 != 0, f3: mask & 4 != 0 };
                if eval(&inst.field.sh, &inst.value, q) == actual {
                    explained = Some((0..3).filter(|b| mask & (1 << b) != 0).map(|b| cand[b].0.to_string()).collect::<Vec<_>>());
                    break 'subsets;
                }
            }
        }
        match explained {
            Some(ids) => known.extend(ids),
            None => {
                let why = if spec {
                    format!("{}: the value satisfies every predicate of {} but the resolver was not invoked; error: {:?}", alias, inst.field.name, errs)
                } else {
                    format!("{}: the value violates a predicate of {} but the resolver was invoked and no error was reported", alias, inst.field.name)
                };
                return Case::fail(text, why);
            }
        }
    }
    known.sort();
    known.dedup();
    let mut c = if known.is_empty() { Case::pass(text) } else { Case::known(text, known) };
    c = c.nontrivial(nontrivial).class(if fast { "mode:fast" } else { "mode:strict" });
    if insts.iter().any(|i| i.by_variable) {
        c = c.class("supply:variable");
    }
    if insts.iter().any(|i| !i.by_variable) {
        c = c.class("supply:literal");
    }
    if insts.iter().any(|i| matches!(i.field.sh, Sh::Obj(_))) {
        c = c.class("input-object");
    }
    if insts.iter().any(|i| matches!(&i.value, V::S(s) if s.len() != s.chars().count())) {
        c = c.class("string:multibyte");
    }
    case_classes.sort();
    case_classes.dedup();
    for cl in case_classes {
        c = c.class(cl);
    }
    if let [one] = insts {
        c = c.class(format!("single:{}", one.field.name));
    }
    c
}

/// deterministic neighbourhood of every bound of a slot (no finding constructs unless allowed)
fn sweep_values(sh: &Sh, allow: Allow) -> Vec<V> {
    match sh {
        Sh::Obj(_) => vec![],
        Sh::Leaf(sl) if sl.is_list => {
            let elems: Vec<V> = sweep_values(&Sh::Leaf(Slot { is_list: false, ..sl.clone() }), allow);
            let good: Vec<V> = elems.iter().filter(|x| sl.preds.iter().filter(|p| !matches!(p, P::MaxItems(_) | P::MinItems(_))).all(|p| pred(*p, x, Quirks::default()))).cloned().collect();
            let g = good.first().cloned().unwrap_or_else(|| elems[0].clone());
            let mut out = vec![V::L(vec![])];
            for n in 1..=5 {
                out.push(V::L(vec![g.clone(); n]));
            }
            if sl.elemwise {
                for e in &elems {
                    out.push(V::L(vec![e.clone()]));
                    out.push(V::L(vec![g.clone(), e.clone()]));
                    out.push(V::L(vec![e.clone(), g.clone()]));
                }
            }
            out
        }
        Sh::Leaf(sl) => {
            let has_mul = sl.preds.iter().any(|p| matches!(p, P::MulI(_) | P::MulHalves(_)));
            let int_bound = sl.preds.iter().any(|p| matches!(p, P::MaxI(_) | P::MinI(_) | P::MulI(_)));
            let float_bound = sl.preds.iter().any(|p| matches!(p, P::MaxF(_) | P::MinF(_)));
            match sl.k {
                K::Int { lo, hi } => {
                    let mut c: Vec<i128> = int_candidates(sl, lo, hi).into_iter().filter(|v| *v >= lo && *v <= hi).collect();
                    c.retain(|v| !(has_mul && *v == 0) && (allow.above_i64 || *v <= i64::MAX as i128) && (allow.f1 || !(int_bound && *v > i64::MAX as i128)) && (allow.f3 || !(float_bound && v.abs() > TWO53)));
                    c.sort();
                    c.dedup();
                    c.into_iter().map(V::I).collect()
                }
                K::F32 | K::F64 => {
                    let mut out: Vec<f64> = vec![];
                    for p in &sl.preds {
                        let b = match p {
                            P::MaxI(b) | P::MinI(b) => *b as f64,
                            P::MaxF(b) | P::MinF(b) => *b,
                            P::MulI(m) => {
                                out.extend([*m as f64, 2.0 * *m as f64, -*m as f64, *m as f64 + 1.0, *m as f64 + 0.5, 1e300, *m as f64 * 1e18 + 2048.0]);
                                continue;
                            }
                            P::MulHalves(h) => {
                                let m = *h as f64 / 2.0;
                                out.extend([m, 2.0 * m, -3.0 * m, m + 0.5, m / 2.0, next_up(m), 1e300]);
                                continue;
                            }
                            _ => continue,
                        };
                        out.extend([b - 1.0, b - 0.5, next_down(b), b, next_up(b), b + 0.5, b + 1.0, -1e300, 1e300]);
                    }
                    if sl.k == K::F32 {
                        out = out.into_iter().map(|f| f as f32).filter(|g| g.is_finite()).map(|g| g as f64).collect();
                    }
                    out.retain(|f| !(has_mul && *f == 0.0) && (allow.f2 || !(int_bound && !f64_is_i64(*f))));
                    out.into_iter().map(V::F).collect()
                }
                K::Str => {
                    let mut out = vec![];
                    if let Some(P::Regex(re)) = sl.preds.iter().find(|p| matches!(p, P::Regex(_))) {
                        let xs: &[&str] = match re {
                            Re::Digits => &["", "0", "123", "12a3", "a", "123\n", "\n123", " 1", "٣", "1٣", "-1", "1.5"],
                            Re::Abc => &["", "abc", "abbbc", "ac", "ab", "bc", "xxabcxx", "aabbc", "abxc", "ABC", "a\nbc", "cba"],
                            Re::Counted => &["", "a", "ab", "abc", "abca", "abcab", "abx", "abcax", "abcabx", "x", "ax", "abd", "abxx", "xab", "AB", "ab\n"],
                        };
                        out.extend(xs.iter().map(|s| V::S(s.to_string())));
                    } else {
                        for ch in ['a', 'é', '中', '😀'] {
                            for n in 0..=8 {
                                out.push(V::S(std::iter::repeat(ch).take(n).collect()));
                            }
                        }
                        out.push(V::S("a\u{301}é中😀".into()));
                        out.push(V::S("\"\\\n\t ".into()));
                    }
                    out
                }
            }
        }
    }
}

/// a value of the slot that satisfies its predicates and contains no finding construct
fn good_value(sh: &Sh) -> V {
    match sh {
        Sh::Obj(fs) => V::O(fs.iter().map(|(n, f)| (*n, good_value(f))).collect()),
        leaf => sweep_values(leaf, Allow::default()).into_iter().find(|v| eval(leaf, v, Quirks::default())).expect("table error: no satisfying value in the sweep"),
    }
}

/// for object shapes: vary one leaf through its sweep while the others hold a satisfying value
fn object_sweep(sh: &Sh, allow: Allow) -> Vec<V> {
    fn leaves(sh: &Sh, path: &mut Vec<usize>, out: &mut Vec<Vec<usize>>) {
        match sh {
            Sh::Obj(fs) => {
                for (i, (_, f)) in fs.iter().enumerate() {
                    path.push(i);
                    leaves(f, path, out);
                    path.pop();
                }
            }
            Sh::Leaf(_) => out.push(path.clone()),
        }
    }
    fn at<'a>(sh: &'a Sh, path: &[usize]) -> &'a Sh {
        match (sh, path) {
            (Sh::Obj(fs), [i, rest @ ..]) => at(&fs[*i].1, rest),
            _ => sh,
        }
    }
    fn set(v: &mut V, path: &[usize], x: V) {
        match (v, path) {
            (V::O(fs), [i, rest @ ..]) => set(&mut fs[*i].1, rest, x),
            (v, _) => *v = x,
        }
    }
    let mut paths = vec![];
    leaves(sh, &mut vec![], &mut paths);
    let base = good_value(sh);
    let mut out = vec![base.clone()];
    for p in paths {
        for x in sweep_values(at(sh, &p), allow) {
            let mut v = base.clone();
            set(&mut v, &p, x);
            out.push(v);
        }
    }
    out
}

pub fn run(ctx: &mut Ctx) {
    ctx.rule = "queries of 1..3 aliased fields over two derive-built schemas whose arguments / input-object fields carry every built-in validator \
                (maximum, minimum, multiple_of with positive and negative integer and float literals on i8/i32/i64/u8/u16/u32/u64/usize/f32/f64; max/min_length, \
                chars_max/min_length, regex on String and ID; max/min_items and the list forms on Vec), values drawn at, below and above every \
                bound, supplied as literals or variables, in strict and fast validation mode; first a deterministic sweep of every bound \
                neighbourhood of every field. Observable: resolver invoked exactly once and no error  <=>  every predicate holds exactly; \
                otherwise no invocation and exactly one error whose path is the field's alias (in a multi-field query a field after the \
                first failing one may be cut short: then only 'never invoked when a predicate fails' is demanded of it). Non-trivial = some scalar is at or one step \
                from a bound of its predicate (or list length from an item bound, or a pattern is involved)"
        .into();
    ctx.assume("multiple_of with value 0 (or -0.0) is unspecified (documentation: 'multiple of N'; the crate's unit test rejects 0): never offered");
    ctx.assume("only values of the declared Rust type are offered (out-of-domain numbers, wrong kinds and nulls are C06/C07's subject); f32 slots are offered only numbers that are exactly f32 values");
    ctx.assume("bounds are literals that fit i64 / f64 (the derive macro parses integer literals as i64), so unsigned bounds above i64::MAX cannot be expressed; multiple_of = -1 (i64::MIN % -1 overflows) is not part of the table");
    ctx.assume("AsPrimitive is not implemented for NonZero types, so numeric validators cannot be attached to them (compile error); not covered");
    ctx.assume("regex is checked against three fixed patterns with hand-written matchers (^[0-9]+$, ab+c, ^[a-c]{2,4}x?$) under the regex crate's documented semantics ($ matches only at the very end, [0-9] is ASCII)");
    ctx.assume("'an error whose path names the field' = exactly one entry of Response.errors whose path is [alias of the query field]; for input-object fields that is the query field receiving the object");
    ctx.assume("in strict mode unsigned values above i64::MAX are outside the domain: validation rejects them as not of type Int (the `is_valid` pre-check registered for the name Int is i32's) before any validator runs; they are offered in fast mode only");
    let open = Quirks { f1: ctx.open(F1), f2: ctx.open(F2), f3: ctx.open(F3) };
    // per mode [strict, fast]: what the main streams may contain / what the probes add
    let main_allow = |fast: bool| Allow { f1: !open.f1, f2: !open.f2, f3: !open.f3, above_i64: fast };
    let probe_allow = |fast: bool| Allow { f1: true, f2: true, f3: true, above_i64: fast };
    for (id, o) in [(F1, open.f1), (F2, open.f2), (F3, open.f3)] {
        if o {
            ctx.excluded(id);
        }
    }
    let sc = schemas();
    let fs = fields();
    let sweep = |f: &Field, allow: Allow| match &f.sh {
        Sh::Obj(_) => object_sweep(&f.sh, allow),
        leaf => sweep_values(leaf, allow),
    };

    // ---- deterministic sweep: every field x bound neighbourhood x mode x supply
    let t0 = Instant::now();
    let mut n_sw = 0u64;
    for f in &fs {
        for fast in [false, true] {
            for v in sweep(f, main_allow(fast)) {
                for by_variable in [false, true] {
                    n_sw += 1;
                    let c = run_query(&sc, &[Inst { field: f, value: v.clone(), by_variable }], fast, open).class("sweep");
                    if ctx.check_case("sweep", c, serde_json::json!({"field": f.name})) {
                        return;
                    }
                }
            }
        }
    }
    ctx.enumerated("sweep", n_sw, true, t0);

    // ---- known-finding probes: the sweep values that carry a construct the main streams leave out
    let t0 = Instant::now();
    let mut n_pr = 0u64;
    for f in &fs {
        for fast in [false, true] {
            for v in sweep(f, probe_allow(fast)) {
                let mut present = Quirks::default();
                constructs(&f.sh, &v, &mut present);
                if (present.f1 && open.f1) || (present.f2 && open.f2) || (present.f3 && open.f3) {
                    for by_variable in [false, true] {
                        n_pr += 1;
                        let c = run_query(&sc, &[Inst { field: f, value: v.clone(), by_variable }], fast, open).class("probe");
                        if ctx.check_case("finding-probe", c, serde_json::json!({"field": f.name})) {
                            return;
                        }
                    }
                }
            }
        }
    }
    ctx.enumerated("finding-probe", n_pr, true, t0);

    // ---- random queries
    let n = ctx.tier.pick(400_000, 10_000_000);
    let gen_case = |s: &mut dyn Src, probe: bool| -> Case {
        let fast = s.bool();
        let allow = if probe { probe_allow(fast) } else { main_allow(fast) };
        let k = 1 + s.weighted(&[6, 3, 1]);
        let insts: Vec<Inst> = (0..k)
            .map(|_| {
                let field = &fs[s.choose(fs.len())];
                Inst { field, value: gen_value(&field.sh, s, allow), by_variable: s.bool() }
            })
            .collect();
        run_query(&sc, &insts, fast, open)
    };
    ctx.stream("random", n, 96, |s| gen_case(s, false));
    if ctx.violations() > 0 {
        return;
    }
    if open.f1 || open.f2 || open.f3 {
        ctx.stream("random-probe", n / 10, 96, |s| gen_case(s, true).class("probe"));
    }

    ctx.floor("mode:strict", 10_000);
    ctx.floor("mode:fast", 10_000);
    ctx.floor("supply:variable", 10_000);
    ctx.floor("supply:literal", 10_000);
    ctx.floor("expect:reaches-resolver", 10_000);
    ctx.floor("expect:field-error", 10_000);
    ctx.floor("input-object", 2_000);
    ctx.floor("string:multibyte", 1_000);
    ctx.floor("list:first-element-ok-later-fails", 300);
    ctx.floor("list:empty", 300);
}
