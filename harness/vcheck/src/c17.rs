//! C17 — exported SDL is a valid type-system document that describes exactly the schema, under every combination of
//! export options.
//!
//! Sources: (a) generated dynamic schemas (`gen_sch`) decorated with nasty descriptions / deprecation reasons /
//! string defaults, built with a builder that forwards every description and deprecation; (b) two derive-built static
//! schemas (`nst` = the clean family member, `prb` = the constructs of the known findings) whose expectation is a
//! hand-written table in this file. Oracle: the SDL parses with `async_graphql_parser::parse_schema` AND with the
//! reference parser; the read-back (`vgql::sch::from_sdl` + directive definitions / applied directives / specifiedBy
//! read here) equals the source.
use async_graphql::dynamic as dy;
use async_graphql::SDLExportOptions;
use serde_json::json;
use std::collections::{BTreeMap, BTreeSet};
use vcore::{Case, Ctx, Src};
use vgql::ast::*;
use vgql::gensch::*;
use vgql::print::print_value_plain;
use vgql::refparse::{parse_type_system, Opts, SdlDef, SdlDoc};
use vgql::sch::*;
use vschemas::dynbuild::{type_ref, val_to_value};

// ---------------------------------------------------------------------------------------------------------------
// export options

#[derive(Clone, Copy, Debug, PartialEq)]
struct O {
    sorted_fields: bool,
    sorted_arguments: bool,
    sorted_enum_items: bool,
    federation: bool,
    single_line: bool,
    specified_by: bool,
    compose_directive: bool,
    space_indent: bool,
    width: u8,
}
const WIDTHS: [u8; 5] = [2, 0, 1, 4, 9];

impl O {
    fn from_bits(bits: u32, width: u8) -> O {
        O {
            sorted_fields: bits & 1 != 0,
            sorted_arguments: bits & 2 != 0,
            sorted_enum_items: bits & 4 != 0,
            federation: bits & 8 != 0,
            single_line: bits & 16 != 0,
            specified_by: bits & 32 != 0,
            compose_directive: bits & 64 != 0,
            space_indent: bits & 128 != 0,
            width,
        }
    }
    fn default() -> O {
        O::from_bits(0, 2)
    }
    fn build(&self) -> SDLExportOptions {
        let mut o = SDLExportOptions::new();
        if self.sorted_fields {
            o = o.sorted_fields();
        }
        if self.sorted_arguments {
            o = o.sorted_arguments();
        }
        if self.sorted_enum_items {
            o = o.sorted_enum_items();
        }
        if self.federation {
            o = o.federation();
        }
        if self.single_line {
            o = o.prefer_single_line_descriptions();
        }
        if self.specified_by {
            o = o.include_specified_by();
        }
        if self.compose_directive {
            o = o.compose_directive();
        }
        if self.space_indent {
            o = o.use_space_ident().indent_width(self.width);
        }
        o
    }
    fn tab(&self) -> String {
        if self.space_indent {
            " ".repeat(self.width as usize)
        } else {
            "\t".into()
        }
    }
    fn show(&self) -> String {
        let mut v = vec![];
        for (on, n) in [
            (self.sorted_fields, "sorted_fields"),
            (self.sorted_arguments, "sorted_arguments"),
            (self.sorted_enum_items, "sorted_enum_items"),
            (self.federation, "federation"),
            (self.single_line, "prefer_single_line_descriptions"),
            (self.specified_by, "include_specified_by"),
            (self.compose_directive, "compose_directive"),
        ] {
            if on {
                v.push(n.to_string());
            }
        }
        if self.space_indent {
            v.push(format!("use_space_ident+indent_width({})", self.width));
        }
        if v.is_empty() {
            "default".into()
        } else {
            v.join("+")
        }
    }
}

/// every combination of the eight toggles; with space indentation every width of `WIDTHS`
fn all_options() -> Vec<O> {
    let mut v = vec![];
    for bits in 0..256u32 {
        if bits & 128 != 0 {
            for w in WIDTHS {
                v.push(O::from_bits(bits, w));
            }
        } else {
            v.push(O::from_bits(bits, 2));
        }
    }
    v
}
fn gen_options(s: &mut dyn Src) -> O {
    O::from_bits(s.choose(256) as u32, WIDTHS[s.choose(WIDTHS.len())])
}

// ---------------------------------------------------------------------------------------------------------------
// what a schema is expected to say / what an SDL text says

type Applied = (String, Vec<(String, Val)>);

#[derive(Clone, Debug)]
struct DirSig {
    name: String,
    args: Vec<ArgDef>,
    repeatable: bool,
    locations: Vec<String>,
}

#[derive(Clone, Debug)]
struct Expect {
    sch: Sch,
    specified_by: BTreeMap<String, String>,
    custom_directives: Vec<DirSig>,
    /// element path (`T`, `T.f`, `T.f(a)`, `E.V`) -> applied custom directives
    applied: BTreeMap<String, Vec<Applied>>,
}

struct Back {
    sch: Sch,
    directives: Vec<DirSig>,
    applied: BTreeMap<String, Vec<Applied>>,
    specified_by: BTreeMap<String, String>,
    schema_definition: bool,
    schema_extensions: usize,
}

fn arg_of(i: &vgql::refparse::InputDefn) -> ArgDef {
    let mut default = i.default.clone();
    if let Some(v) = &mut default {
        let mut pv = PVal::new(v.clone());
        strip_val(&mut pv);
        *v = pv.v;
    }
    ArgDef { name: i.name.clone(), ty: i.ty.clone(), default, desc: i.desc.clone(), deprecated: None }
}

fn note_applied(out: &mut BTreeMap<String, Vec<Applied>>, spec: &mut BTreeMap<String, String>, path: String, ds: &[Directive]) {
    for d in ds {
        match d.name.s.as_str() {
            "deprecated" | "oneOf" => {}
            "specifiedBy" => {
                if let Some((_, v)) = d.args.iter().find(|(n, _)| n.s == "url") {
                    if let Val::Str(u) = &v.v {
                        spec.insert(path.clone(), u.clone());
                    }
                }
            }
            _ => {
                let args = d
                    .args
                    .iter()
                    .map(|(n, v)| {
                        let mut pv = v.clone();
                        strip_val(&mut pv);
                        (n.s.clone(), pv.v)
                    })
                    .collect();
                out.entry(path.clone()).or_default().push((d.name.s.clone(), args));
            }
        }
    }
}

fn read_back(doc: &SdlDoc) -> Result<Back, String> {
    let sch = from_sdl(doc)?;
    let mut b = Back { sch, directives: vec![], applied: BTreeMap::new(), specified_by: BTreeMap::new(), schema_definition: false, schema_extensions: 0 };
    for d in &doc.defs {
        match d {
            SdlDef::Schema(s) => {
                if s.extend {
                    b.schema_extensions += 1;
                } else {
                    b.schema_definition = true;
                }
            }
            SdlDef::Directive(dd) => b.directives.push(DirSig { name: dd.name.clone(), args: dd.args.iter().map(arg_of).collect(), repeatable: dd.repeatable, locations: dd.locations.clone() }),
            SdlDef::Type(t) => {
                note_applied(&mut b.applied, &mut b.specified_by, t.name.clone(), &t.directives);
                for f in &t.fields {
                    note_applied(&mut b.applied, &mut b.specified_by, format!("{}.{}", t.name, f.name), &f.directives);
                    for a in &f.args {
                        note_applied(&mut b.applied, &mut b.specified_by, format!("{}.{}({})", t.name, f.name, a.name), &a.directives);
                    }
                }
                for v in &t.values {
                    note_applied(&mut b.applied, &mut b.specified_by, format!("{}.{}", t.name, v.name), &v.directives);
                }
                for f in &t.input_fields {
                    note_applied(&mut b.applied, &mut b.specified_by, format!("{}.{}", t.name, f.name), &f.directives);
                }
            }
        }
    }
    Ok(b)
}

/// values compared as values: numbers by what they denote, objects as maps
fn val_eq(a: &Val, b: &Val) -> bool {
    fn num(v: &Val) -> Option<f64> {
        match v {
            Val::Int(t) | Val::Float(t) => t.parse::<f64>().ok(),
            _ => None,
        }
    }
    match (a, b) {
        (Val::Int(x), Val::Int(y)) => x.parse::<i128>().ok() == y.parse::<i128>().ok() && x.parse::<i128>().is_ok(),
        (Val::Int(_) | Val::Float(_), Val::Int(_) | Val::Float(_)) => num(a).is_some() && num(a) == num(b),
        (Val::List(x), Val::List(y)) => x.len() == y.len() && x.iter().zip(y).all(|(p, q)| val_eq(&p.v, &q.v)),
        (Val::Obj(x), Val::Obj(y)) => x.len() == y.len() && x.iter().all(|(k, p)| y.iter().filter(|(k2, _)| k2.s == k.s).count() == 1 && y.iter().any(|(k2, q)| k2.s == k.s && val_eq(&p.v, &q.v))),
        _ => a == b,
    }
}
fn opt_val_eq(a: &Option<Val>, b: &Option<Val>) -> bool {
    match (a, b) {
        (None, None) => true,
        (Some(x), Some(y)) => val_eq(x, y),
        _ => false,
    }
}
fn show_val(v: &Option<Val>) -> String {
    v.as_ref().map(print_value_plain).unwrap_or_else(|| "<none>".into())
}

fn same_names(what: &str, want: Vec<&str>, got: Vec<&str>, sorted: bool) -> Result<(), String> {
    let w: BTreeSet<&str> = want.iter().copied().collect();
    let g: BTreeSet<&str> = got.iter().copied().collect();
    if w != g || want.len() != got.len() {
        return Err(format!("{}: expected {:?}, the SDL has {:?}", what, want, got));
    }
    if sorted && !got.windows(2).all(|p| p[0] <= p[1]) {
        return Err(format!("{}: not sorted although the option asks for it: {:?}", what, got));
    }
    Ok(())
}

fn cmp_inputs(what: &str, want: &[ArgDef], got: &[ArgDef], sorted: bool) -> Result<(), String> {
    same_names(what, want.iter().map(|a| a.name.as_str()).collect(), got.iter().map(|a| a.name.as_str()).collect(), sorted)?;
    for w in want {
        let g = got.iter().find(|a| a.name == w.name).unwrap();
        let at = format!("{} {}", what, w.name);
        if w.ty != g.ty {
            return Err(format!("{}: type {} expected, SDL says {}", at, w.ty.show(), g.ty.show()));
        }
        if !opt_val_eq(&w.default, &g.default) {
            return Err(format!("{}: default value {} expected, SDL says {}", at, show_val(&w.default), show_val(&g.default)));
        }
        if w.desc != g.desc {
            return Err(format!("{}: description {:?} expected, SDL says {:?}", at, w.desc, g.desc));
        }
        if w.deprecated != g.deprecated {
            return Err(format!("{}: deprecation {:?} expected, SDL says {:?}", at, w.deprecated, g.deprecated));
        }
    }
    Ok(())
}

fn cmp_type(w: &TypeDef, g: &TypeDef, o: &O) -> Result<(), String> {
    let n = &w.name;
    if w.kind != g.kind {
        return Err(format!("{}: kind {:?} expected, SDL says {:?}", n, w.kind, g.kind));
    }
    if w.desc != g.desc {
        return Err(format!("{}: description {:?} expected, SDL says {:?}", n, w.desc, g.desc));
    }
    if w.one_of != g.one_of {
        return Err(format!("{}: oneOf {} expected, SDL says {}", n, w.one_of, g.one_of));
    }
    same_names(&format!("{} implements", n), w.interfaces.iter().map(|s| s.as_str()).collect(), g.interfaces.iter().map(|s| s.as_str()).collect(), false)?;
    same_names(&format!("{} members", n), w.members.iter().map(|s| s.as_str()).collect(), g.members.iter().map(|s| s.as_str()).collect(), false)?;
    same_names(&format!("{} fields", n), w.fields.iter().map(|f| f.name.as_str()).collect(), g.fields.iter().map(|f| f.name.as_str()).collect(), o.sorted_fields)?;
    for wf in &w.fields {
        let gf = g.field(&wf.name).unwrap();
        let at = format!("{}.{}", n, wf.name);
        if wf.ty != gf.ty {
            return Err(format!("{}: type {} expected, SDL says {}", at, wf.ty.show(), gf.ty.show()));
        }
        if wf.desc != gf.desc {
            return Err(format!("{}: description {:?} expected, SDL says {:?}", at, wf.desc, gf.desc));
        }
        if wf.deprecated != gf.deprecated {
            return Err(format!("{}: deprecation {:?} expected, SDL says {:?}", at, wf.deprecated, gf.deprecated));
        }
        cmp_inputs(&format!("{} argument", at), &wf.args, &gf.args, o.sorted_arguments)?;
    }
    same_names(&format!("{} values", n), w.values.iter().map(|f| f.name.as_str()).collect(), g.values.iter().map(|f| f.name.as_str()).collect(), o.sorted_enum_items)?;
    for wv in &w.values {
        let gv = g.values.iter().find(|v| v.name == wv.name).unwrap();
        if wv.desc != gv.desc {
            return Err(format!("{}.{}: description {:?} expected, SDL says {:?}", n, wv.name, wv.desc, gv.desc));
        }
        if wv.deprecated != gv.deprecated {
            return Err(format!("{}.{}: deprecation {:?} expected, SDL says {:?}", n, wv.name, wv.deprecated, gv.deprecated));
        }
    }
    cmp_inputs(&format!("{} input field", n), &w.input_fields, &g.input_fields, o.sorted_fields)
}

/// the specification's built-in directives (§3.13) — what a printed definition of them has to say
fn builtin_directive(name: &str) -> Option<DirSig> {
    let a = |n: &str, t: &str, d: Option<Val>| ArgDef { name: n.into(), ty: Ty::parse(t), default: d, desc: None, deprecated: None };
    let l = |xs: &[&str]| xs.iter().map(|x| x.to_string()).collect::<Vec<_>>();
    match name {
        "skip" | "include" => Some(DirSig { name: name.into(), args: vec![a("if", "Boolean!", None)], repeatable: false, locations: l(&["FIELD", "FRAGMENT_SPREAD", "INLINE_FRAGMENT"]) }),
        "deprecated" => Some(DirSig {
            name: name.into(),
            args: vec![a("reason", "String", Some(Val::Str("No longer supported".into())))],
            repeatable: false,
            locations: l(&["FIELD_DEFINITION", "ARGUMENT_DEFINITION", "INPUT_FIELD_DEFINITION", "ENUM_VALUE"]),
        }),
        "specifiedBy" => Some(DirSig { name: name.into(), args: vec![a("url", "String!", None)], repeatable: false, locations: l(&["SCALAR"]) }),
        "oneOf" => Some(DirSig { name: name.into(), args: vec![], repeatable: false, locations: l(&["INPUT_OBJECT"]) }),
        _ => None,
    }
}

fn cmp_directive(w: &DirSig, g: &DirSig) -> Result<(), String> {
    let at = format!("directive @{}", w.name);
    if w.repeatable != g.repeatable {
        return Err(format!("{}: repeatable {} expected, SDL says {}", at, w.repeatable, g.repeatable));
    }
    let ws: BTreeSet<&String> = w.locations.iter().collect();
    let gs: BTreeSet<&String> = g.locations.iter().collect();
    if ws != gs {
        return Err(format!("{}: locations {:?} expected, SDL says {:?}", at, w.locations, g.locations));
    }
    // descriptions of directive arguments are not compared (see assumptions)
    let strip = |v: &[ArgDef]| v.iter().map(|a| ArgDef { desc: None, ..a.clone() }).collect::<Vec<_>>();
    cmp_inputs(&format!("{} argument", at), &strip(&w.args), &strip(&g.args), false)
}

fn compare(e: &Expect, b: &Back, o: &O) -> Result<(), String> {
    // root operation types
    if !o.federation {
        if !b.schema_definition {
            return Err("no schema definition".into());
        }
        if (&e.sch.query, &e.sch.mutation, &e.sch.subscription) != (&b.sch.query, &b.sch.mutation, &b.sch.subscription) {
            return Err(format!(
                "root types: expected query={} mutation={:?} subscription={:?}, SDL says query={} mutation={:?} subscription={:?}",
                e.sch.query, e.sch.mutation, e.sch.subscription, b.sch.query, b.sch.mutation, b.sch.subscription
            ));
        }
    } else {
        // subgraph form: `extend schema @link(..)`, roots by their default names, the subscription root is left out
        if b.schema_extensions == 0 {
            return Err("federation SDL without `extend schema @link`".into());
        }
        if e.sch.query != b.sch.query || e.sch.mutation != b.sch.mutation {
            return Err(format!("root types: expected query={} mutation={:?}, SDL says query={} mutation={:?}", e.sch.query, e.sch.mutation, b.sch.query, b.sch.mutation));
        }
    }
    let hidden = if o.federation { e.sch.subscription.clone() } else { None };
    let want: Vec<&str> = e.sch.types.keys().filter(|k| Some(*k) != hidden.as_ref()).map(|k| k.as_str()).collect();
    let got: Vec<&str> = b.sch.types.keys().map(|k| k.as_str()).collect();
    same_names("named types", want.clone(), got, false)?;
    for n in want {
        cmp_type(&e.sch.types[n], &b.sch.types[n], o)?;
    }
    for (n, url) in &e.specified_by {
        match b.specified_by.get(n) {
            Some(u) if u == url => {}
            None if !o.specified_by => {}
            other => return Err(format!("scalar {}: specifiedBy url {:?} expected, SDL says {:?}", n, url, other)),
        }
    }
    for n in b.specified_by.keys() {
        if !e.specified_by.contains_key(n) {
            return Err(format!("scalar {}: @specifiedBy invented", n));
        }
    }
    // directive definitions: built-in ones may be left out, but a printed one has to be right; custom ones are required
    for g in &b.directives {
        if b.directives.iter().filter(|d| d.name == g.name).count() > 1 {
            return Err(format!("directive @{} defined twice", g.name));
        }
        match e.custom_directives.iter().find(|d| d.name == g.name).cloned().or_else(|| builtin_directive(&g.name)) {
            Some(w) => cmp_directive(&w, g)?,
            None => return Err(format!("directive @{} is not part of the schema", g.name)),
        }
    }
    for w in &e.custom_directives {
        if !b.directives.iter().any(|d| d.name == w.name) {
            return Err(format!("directive definition @{} is missing", w.name));
        }
    }
    // applied custom directives
    let paths: BTreeSet<&String> = e.applied.keys().chain(b.applied.keys()).collect();
    let empty = vec![];
    for p in paths {
        if hidden.as_ref().map_or(false, |h| p == h || p.starts_with(&format!("{}.", h))) {
            continue;
        }
        let w = e.applied.get(p).unwrap_or(&empty);
        let g = b.applied.get(p).unwrap_or(&empty);
        let same = w.len() == g.len() && w.iter().zip(g).all(|(x, y)| x.0 == y.0 && x.1.len() == y.1.len() && x.1.iter().zip(&y.1).all(|(p, q)| p.0 == q.0 && val_eq(&p.1, &q.1)));
        if !same {
            return Err(format!("directives applied to {}: expected {:?}, SDL says {:?}", p, w, g));
        }
    }
    Ok(())
}

/// the strict oracle on one SDL text
fn strict(sdl: &str, e: &Expect, o: &O) -> Result<(), String> {
    if let Err(err) = async_graphql_parser::parse_schema(sdl) {
        return Err(format!("async_graphql_parser::parse_schema rejects the SDL: {}", err));
    }
    let doc = parse_type_system(sdl, &Opts::default()).map_err(|e| format!("the reference parser rejects the SDL at {}:{}: {}", e.pos.line, e.pos.col, e.msg))?;
    let back = read_back(&doc)?;
    compare(e, &back, o)
}

// ---------------------------------------------------------------------------------------------------------------
// known findings: exact quirks. Text quirks are given as "the SDL is the correct SDL except for this rendering";
// they are undone on the text (repair) and the strict oracle is applied to the result.

const FINDINGS: [&str; 5] = ["C17-F1", "C17-F2", "C17-F3", "C17-F4", "C17-F5"];

/// `escape_string` of the exporter as it is today: everything but the double quote
fn reason_as_exported(r: &str) -> String {
    let mut out = String::new();
    for c in r.chars() {
        match c {
            '\\' => out.push_str("\\\\"),
            '\u{8}' => out.push_str("\\b"),
            '\u{c}' => out.push_str("\\f"),
            '\n' => out.push_str("\\n"),
            '\r' => out.push_str("\\r"),
            '\t' => out.push_str("\\t"),
            c => out.push(c),
        }
    }
    out
}

/// every rendered element with its text: (description, indentation level) / deprecation reasons. The subscription
/// root is not rendered under the federation option.
fn rendered_texts(e: &Expect, o: &O) -> (Vec<(String, usize)>, Vec<String>) {
    let (mut descs, mut reasons) = (vec![], vec![]);
    for t in e.sch.types.values() {
        if o.federation && Some(&t.name) == e.sch.subscription.as_ref() {
            continue;
        }
        descs.extend(t.desc.clone().map(|d| (d, 0)));
        for f in &t.fields {
            descs.extend(f.desc.clone().map(|d| (d, 1)));
            reasons.extend(f.deprecated.clone().flatten());
            for a in &f.args {
                descs.extend(a.desc.clone().map(|d| (d, 2)));
                reasons.extend(a.deprecated.clone().flatten());
            }
        }
        for x in &t.values {
            descs.extend(x.desc.clone().map(|d| (d, 1)));
            reasons.extend(x.deprecated.clone().flatten());
        }
        for a in &t.input_fields {
            descs.extend(a.desc.clone().map(|d| (d, 1)));
            reasons.extend(a.deprecated.clone().flatten());
        }
    }
    (descs, reasons)
}
fn all_texts(e: &Expect) -> Vec<String> {
    let (d, r) = rendered_texts(e, &O::default());
    d.into_iter().map(|x| x.0).chain(r).collect()
}

/// a text repair that cannot be applied unambiguously (the deviating rendering of one text also occurs inside another)
struct Ambiguous;

/// Replace every occurrence of a deviating rendering by the correct one in ONE left-to-right pass (longest match
/// first, the replaced text is not scanned again). `pats` = (deviating, correct, must start a line); one entry per
/// rendered element, so the number of occurrences of each rendering is known — any other count means the text is
/// ambiguous. Ok(None) = nothing to repair.
fn replace_renderings(text: &str, pats: Vec<(String, String, bool)>) -> Result<Option<String>, Ambiguous> {
    let mut uniq: Vec<(String, String, bool, usize, usize)> = vec![];
    for (bad, good, anchored) in pats {
        match uniq.iter_mut().find(|u| u.0 == bad) {
            Some(u) => u.3 += 1,
            None => uniq.push((bad, good, anchored, 1, 0)),
        }
    }
    if uniq.is_empty() {
        return Ok(None);
    }
    uniq.sort_by(|x, y| y.0.len().cmp(&x.0.len()));
    let mut out = String::new();
    let mut rest = text;
    'outer: while !rest.is_empty() {
        let line_start = out.is_empty() || out.ends_with('\n');
        for u in uniq.iter_mut() {
            if (line_start || !u.2) && rest.starts_with(u.0.as_str()) {
                out.push_str(&u.1);
                rest = &rest[u.0.len()..];
                u.4 += 1;
                continue 'outer;
            }
        }
        let c = rest.chars().next().unwrap();
        out.push(c);
        rest = &rest[c.len_utf8()..];
    }
    if uniq.iter().any(|u| u.3 != u.4) {
        return Err(Ambiguous);
    }
    Ok(Some(out))
}

/// C17-F1: a deprecation reason is written between double quotes with its own double quotes unescaped
fn repair_f1(sdl: &str, e: &Expect, o: &O) -> Result<Option<String>, Ambiguous> {
    let mut pats = vec![];
    for r in rendered_texts(e, o).1 {
        if r.contains('"') {
            pats.push((format!("@deprecated(reason: \"{}\")", reason_as_exported(&r)), format!("@deprecated(reason: \"{}\")", reason_as_exported(&r).replace('"', "\\\"")), false));
        }
    }
    replace_renderings(sdl, pats)
}
/// C17-F2: a description written as a block string keeps `"""` unescaped
fn repair_f2(sdl: &str, e: &Expect, o: &O) -> Result<Option<String>, Ambiguous> {
    let mut pats = vec![];
    for (d, level) in rendered_texts(e, o).0 {
        if d.contains("\"\"\"") && !(o.single_line && !d.contains('\n')) {
            let tabs = o.tab().repeat(level);
            let block = |text: &str| format!("{tabs}\"\"\"\n{tabs}{}\n{tabs}\"\"\"\n", text.replace('\n', &format!("\n{tabs}")));
            pats.push((block(&d), block(&d.replace("\"\"\"", "\\\"\"\"")), true));
        }
    }
    replace_renderings(sdl, pats)
}
/// C17-F3: a description written as a one-line string keeps backslashes unescaped
fn repair_f3(sdl: &str, e: &Expect, o: &O) -> Result<Option<String>, Ambiguous> {
    let mut pats = vec![];
    for (d, level) in rendered_texts(e, o).0 {
        if o.single_line && d.contains('\\') && !d.contains('\n') {
            let tabs = o.tab().repeat(level);
            pats.push((format!("{tabs}\"{}\"\n", d.replace('"', "\\\"")), format!("{tabs}\"{}\"\n", d.replace('\\', "\\\\").replace('"', "\\\"")), true));
        }
    }
    replace_renderings(sdl, pats)
}
/// C17-F4 (dynamic schemas): the `implements` list of an interface is not exported
fn adjust_f4(e: &Expect) -> Option<Expect> {
    let mut e2 = e.clone();
    let mut hit = false;
    for t in e2.sch.types.values_mut() {
        if t.kind == Kind::Interface && !t.interfaces.is_empty() {
            t.interfaces.clear();
            hit = true;
        }
    }
    hit.then_some(e2)
}
/// C17-F5: `interface X @directive(..) implements Y {` — the directives are written before `implements`
fn repair_f5(sdl: &str) -> Option<String> {
    let mut hit = false;
    let lines: Vec<String> = sdl
        .split('\n')
        .map(|l| {
            if let Some(rest) = l.strip_prefix("interface ") {
                if let (Some(at), Some(imp), Some(end)) = (rest.find(" @"), rest.rfind(" implements "), rest.rfind(" {")) {
                    if at < imp && imp < end {
                        hit = true;
                        return format!("interface {}{}{} {{", &rest[..at], &rest[imp..end], &rest[at..imp]);
                    }
                }
            }
            l.to_string()
        })
        .collect();
    hit.then(|| lines.join("\n"))
}

enum Judged {
    Pass,
    Known(Vec<&'static str>),
    /// no verdict: the deviation involves texts whose deviating renderings cannot be told apart in the SDL
    Ambiguous,
    Fail(String),
}

/// strict oracle, then attribution to the smallest set of OPEN findings whose quirks explain the deviation exactly
fn judge_sdl(sdl: &str, e: &Expect, o: &O, dynamic: bool, open: &[bool; 5]) -> Judged {
    let why = match strict(sdl, e, o) {
        Ok(()) => return Judged::Pass,
        Err(w) => w,
    };
    let mut best: Option<Vec<&'static str>> = None;
    let mut residual = String::new();
    let mut ambiguous = false;
    for mask in 1u32..32 {
        let set: Vec<usize> = (0..5).filter(|i| mask & (1 << i) != 0).collect();
        if set.iter().any(|i| !open[*i]) || best.as_ref().map_or(false, |b| b.len() <= set.len()) {
            continue;
        }
        let mut text = sdl.to_string();
        let mut exp = e.clone();
        let mut applicable = true;
        for i in &set {
            let r = match i {
                0 => repair_f1(&text, e, o),
                1 => repair_f2(&text, e, o),
                2 => repair_f3(&text, e, o),
                4 => Ok(repair_f5(&text)),
                _ => {
                    match (dynamic, adjust_f4(&exp)) {
                        (true, Some(e2)) => exp = e2,
                        _ => applicable = false,
                    }
                    Ok(Some(text.clone()))
                }
            };
            match r {
                Ok(Some(t)) => text = t,
                Ok(None) => applicable = false,
                Err(Ambiguous) => {
                    ambiguous = true;
                    applicable = false;
                }
            }
        }
        if applicable {
            match strict(&text, &exp, o) {
                Ok(()) => best = Some(set.iter().map(|i| FINDINGS[*i]).collect()),
                Err(w) => residual = format!("; with the quirks of {:?} undone: {}", set.iter().map(|i| FINDINGS[*i]).collect::<Vec<_>>(), w),
            }
        }
    }
    match best {
        Some(ids) => Judged::Known(ids),
        None if ambiguous => Judged::Ambiguous,
        None => Judged::Fail(format!("{}{}", why, residual)),
    }
}

// ---------------------------------------------------------------------------------------------------------------
// nasty text

#[derive(Clone, Copy)]
struct Allow {
    quote_in_reason: bool,
    triple_quote_in_description: bool,
    backslash_in_one_line_description: bool,
    interface_inheritance: bool,
}

const TOKENS: [&str; 36] = [
    "a", "Word", " ", "  ", "\t", "\"", "\"\"", "\"\"\"", "\\", "\\\"", "\\\"\"\"", "\\n", "\\u0041", "\\", "#", "{", "}", "@d", "&", "|", "=", "😀", "𝄞", "é", "\u{2028}", "\u{feff}", "\u{7f}",
    "\u{a0}", "'", "$x", "!", "(", ")", ":", "\u{10ffff}", "ß",
];

fn gen_piece(s: &mut dyn Src, out: &mut String, extra: &[char]) {
    match s.weighted(&[10, 2, 1]) {
        0 => out.push_str(TOKENS[s.choose(TOKENS.len())]),
        1 => {
            let c = vcore::gens::gen_char(s);
            if (c as u32) >= 0x20 || c == '\t' || extra.contains(&c) {
                out.push(c);
            }
        }
        _ => {
            if !extra.is_empty() {
                out.push(extra[s.choose(extra.len())]);
            }
        }
    }
}

/// text a block string can carry: no `\r`, no raw control characters but TAB / LF, first line starts with a non-blank
/// character (so there is no common indentation and no leading blank line), last line is not blank
fn gen_description(s: &mut dyn Src, allow: &Allow) -> String {
    let n_lines = 1 + s.weighted(&[5, 3, 1]);
    let mut lines = vec![];
    for _ in 0..n_lines {
        let mut l = String::new();
        for _ in 0..s.choose(5) {
            gen_piece(s, &mut l, &[]);
        }
        lines.push(l);
    }
    let blank = |l: &str| l.chars().all(|c| c == ' ' || c == '\t');
    if n_lines > 1 || !lines[0].is_empty() {
        if lines[0].starts_with(' ') || lines[0].starts_with('\t') || lines[0].is_empty() {
            lines[0].insert(0, 'd');
        }
        let last = lines.len() - 1;
        if blank(&lines[last]) {
            lines[last].push('e');
        }
    }
    let mut d = lines.join("\n");
    if !allow.triple_quote_in_description {
        while d.contains("\"\"\"") {
            d = d.replace("\"\"\"", "\"\"x");
        }
    }
    if !allow.backslash_in_one_line_description && d.contains('\\') && !d.contains('\n') {
        d.push_str("\nz");
    }
    d
}

fn gen_reason(s: &mut dyn Src, allow: &Allow) -> String {
    let mut r = String::new();
    for _ in 0..s.choose(6) {
        gen_piece(s, &mut r, &['\n', '\r', '\u{8}', '\u{c}']);
    }
    if !allow.quote_in_reason {
        r = r.replace('"', "'");
    }
    r
}

fn needs_escape(t: &str) -> bool {
    t.chars().any(|c| c == '"' || c == '\\' || (c as u32) < 0x20 || (c as u32) > 0xffff)
}

/// put descriptions, deprecations and nasty string defaults on every kind of element
fn decorate(sch: &mut Sch, s: &mut dyn Src, allow: &Allow) -> BTreeMap<String, String> {
    let mut specified_by = BTreeMap::new();
    let deprecation = |s: &mut dyn Src, allow: &Allow| -> Option<Option<String>> {
        if s.chance(1, 4) {
            Some(if s.chance(1, 4) { None } else { Some(gen_reason(s, allow)) })
        } else {
            None
        }
    };
    let input = |s: &mut dyn Src, a: &mut ArgDef, one_of: bool, allow: &Allow| {
        if s.chance(1, 3) {
            a.desc = Some(gen_description(s, allow));
        }
        if a.ty == Ty::named("String") && !one_of && s.chance(1, 2) {
            a.default = Some(Val::Str(vcore::gens::gen_string(s, 6)));
        }
        // only optional arguments / input fields can be deprecated
        if !one_of && !(a.ty.is_nn() && a.default.is_none()) {
            a.deprecated = deprecation(s, allow);
        }
    };
    for t in sch.types.values_mut() {
        if s.chance(1, 2) {
            t.desc = Some(gen_description(s, allow));
        }
        if t.kind == Kind::Scalar && s.bool() {
            specified_by.insert(t.name.clone(), format!("https://example.com/spec/{}", t.name));
        }
        for f in &mut t.fields {
            if s.chance(1, 3) {
                f.desc = Some(gen_description(s, allow));
            }
            f.deprecated = deprecation(s, allow);
            for a in &mut f.args {
                input(s, a, false, allow);
            }
        }
        for v in &mut t.values {
            if s.chance(1, 3) {
                v.desc = Some(gen_description(s, allow));
            }
            v.deprecated = deprecation(s, allow);
        }
        let one_of = t.one_of;
        for a in &mut t.input_fields {
            input(s, a, one_of, allow);
        }
    }
    specified_by
}

// ---------------------------------------------------------------------------------------------------------------
// Sch -> dynamic schema, forwarding every description and deprecation (resolvers are never called)

fn input_value(a: &ArgDef) -> dy::InputValue {
    let mut iv = dy::InputValue::new(a.name.clone(), type_ref(&a.ty));
    if let Some(d) = &a.default {
        iv = iv.default_value(val_to_value(d));
    }
    if let Some(d) = &a.desc {
        iv = iv.description(d.clone());
    }
    if let Some(r) = &a.deprecated {
        iv = iv.deprecation(r.as_deref());
    }
    iv
}

fn build_full(sch: &Sch, specified_by: &BTreeMap<String, String>) -> Result<dy::Schema, dy::SchemaError> {
    let mut b = dy::Schema::build(&sch.query, sch.mutation.as_deref(), sch.subscription.as_deref());
    for td in sch.types.values() {
        match td.kind {
            Kind::Scalar => {
                let mut x = dy::Scalar::new(td.name.clone());
                if let Some(d) = &td.desc {
                    x = x.description(d.clone());
                }
                if let Some(u) = specified_by.get(&td.name) {
                    x = x.specified_by_url(u.clone());
                }
                b = b.register(x);
            }
            Kind::Enum => {
                let mut x = dy::Enum::new(td.name.clone());
                for v in &td.values {
                    let mut item = dy::EnumItem::new(v.name.clone());
                    if let Some(d) = &v.desc {
                        item = item.description(d.clone());
                    }
                    if let Some(r) = &v.deprecated {
                        item = item.deprecation(r.as_deref());
                    }
                    x = x.item(item);
                }
                if let Some(d) = &td.desc {
                    x = x.description(d.clone());
                }
                b = b.register(x);
            }
            Kind::Input => {
                let mut x = dy::InputObject::new(td.name.clone());
                for f in &td.input_fields {
                    x = x.field(input_value(f));
                }
                if td.one_of {
                    x = x.oneof();
                }
                if let Some(d) = &td.desc {
                    x = x.description(d.clone());
                }
                b = b.register(x);
            }
            Kind::Union => {
                let mut x = dy::Union::new(td.name.clone());
                for m in &td.members {
                    x = x.possible_type(m.clone());
                }
                if let Some(d) = &td.desc {
                    x = x.description(d.clone());
                }
                b = b.register(x);
            }
            Kind::Interface => {
                let mut x = dy::Interface::new(td.name.clone());
                for f in &td.fields {
                    let mut xf = dy::InterfaceField::new(f.name.clone(), type_ref(&f.ty));
                    for a in &f.args {
                        xf = xf.argument(input_value(a));
                    }
                    if let Some(d) = &f.desc {
                        xf = xf.description(d.clone());
                    }
                    if let Some(r) = &f.deprecated {
                        xf = xf.deprecation(r.as_deref());
                    }
                    x = x.field(xf);
                }
                for i in &td.interfaces {
                    x = x.implement(i.clone());
                }
                if let Some(d) = &td.desc {
                    x = x.description(d.clone());
                }
                b = b.register(x);
            }
            Kind::Object if Some(&td.name) == sch.subscription.as_ref() => {
                let mut x = dy::Subscription::new(td.name.clone());
                for f in &td.fields {
                    let mut xf = dy::SubscriptionField::new(f.name.clone(), type_ref(&f.ty), |_| {
                        dy::SubscriptionFieldFuture::new(async { Ok(futures_util::stream::iter(Vec::<async_graphql::Result<dy::FieldValue<'static>>>::new())) })
                    });
                    for a in &f.args {
                        xf = xf.argument(input_value(a));
                    }
                    if let Some(d) = &f.desc {
                        xf = xf.description(d.clone());
                    }
                    if let Some(r) = &f.deprecated {
                        xf = xf.deprecation(r.as_deref());
                    }
                    x = x.field(xf);
                }
                if let Some(d) = &td.desc {
                    x = x.description(d.clone());
                }
                b = b.register(x);
            }
            Kind::Object => {
                let mut x = dy::Object::new(td.name.clone());
                for f in &td.fields {
                    let mut xf = dy::Field::new(f.name.clone(), type_ref(&f.ty), |_| dy::FieldFuture::from_value(None));
                    for a in &f.args {
                        xf = xf.argument(input_value(a));
                    }
                    if let Some(d) = &f.desc {
                        xf = xf.description(d.clone());
                    }
                    if let Some(r) = &f.deprecated {
                        xf = xf.deprecation(r.as_deref());
                    }
                    x = x.field(xf);
                }
                for i in &td.interfaces {
                    x = x.implement(i.clone());
                }
                if let Some(d) = &td.desc {
                    x = x.description(d.clone());
                }
                b = b.register(x);
            }
        }
    }
    b.finish()
}

fn show_expect(e: &Expect) -> String {
    let mut texts: Vec<String> = vec![];
    for t in e.sch.types.values() {
        let mut note = |path: String, d: &Option<String>, dep: Option<&Option<Option<String>>>| {
            if let Some(d) = d {
                texts.push(format!("{} desc={:?}", path, d));
            }
            if let Some(Some(r)) = dep {
                texts.push(format!("{} deprecated={:?}", path, r));
            }
        };
        note(t.name.clone(), &t.desc, None);
        for f in &t.fields {
            note(format!("{}.{}", t.name, f.name), &f.desc, Some(&f.deprecated));
            for a in &f.args {
                note(format!("{}.{}({})", t.name, f.name, a.name), &a.desc, Some(&a.deprecated));
            }
        }
        for v in &t.values {
            note(format!("{}.{}", t.name, v.name), &v.desc, Some(&v.deprecated));
        }
        for a in &t.input_fields {
            note(format!("{}.{}", t.name, a.name), &a.desc, Some(&a.deprecated));
        }
    }
    format!("schema: {}\ntexts: {}\nspecifiedBy: {:?}", show_sch(&e.sch), texts.join("; "), e.specified_by)
}

struct Tally {
    escapes: bool,
    inheritance: bool,
}
fn tally(e: &Expect) -> Tally {
    let escapes = all_texts(e).iter().any(|t| needs_escape(t))
        || e.sch.types.values().any(|t| {
            t.input_fields.iter().chain(t.fields.iter().flat_map(|f| f.args.iter())).any(|a| matches!(&a.default, Some(Val::Str(x)) if needs_escape(x)))
        });
    let inheritance = e.sch.types.values().any(|t| t.kind == Kind::Interface && !t.interfaces.is_empty());
    Tally { escapes, inheritance }
}

/// one exported text against its source
fn one_export(sdl: &str, e: &Expect, o: &O, dynamic: bool, open: &[bool; 5], what: &str) -> Case {
    let t = tally(e);
    let text = format!("{}\noptions: {}", what, o.show());
    let c = match judge_sdl(sdl, e, o, dynamic, open) {
        Judged::Pass => Case::pass(text),
        Judged::Known(ids) => Case::known(text, ids.iter().map(|s| s.to_string()).collect()),
        Judged::Ambiguous => return Case::discard("ambiguous text repair"),
        Judged::Fail(why) => Case::fail(format!("{}\nSDL:\n{}", text, sdl), why),
    };
    let nontrivial = t.escapes || t.inheritance || *o != O::default();
    c.nontrivial(nontrivial)
        .class_if(t.escapes, "text-needing-escape")
        .class_if(t.inheritance, "interface-implements-interface")
        .class_if(*o != O::default(), "non-default-options")
        .class_if(o.federation, "option:federation")
        .class_if(o.single_line, "option:prefer_single_line_descriptions")
        .class_if(o.sorted_fields || o.sorted_arguments || o.sorted_enum_items, "option:sorted")
        .class_if(o.space_indent, "option:use_space_ident")
}

fn gen_dynamic(s: &mut dyn Src, allow: &Allow) -> Result<(Expect, dy::Schema), Case> {
    let mut sch = gen_sch(s, &SchCfg { subscription: true, interface_inheritance: allow.interface_inheritance, ..SchCfg::default() });
    let specified_by = decorate(&mut sch, s, allow);
    let e = Expect { sch, specified_by, custom_directives: vec![], applied: BTreeMap::new() };
    match build_full(&e.sch, &e.specified_by) {
        Ok(schema) => Ok((e, schema)),
        Err(err) => Err(Case::fail(show_expect(&e), format!("HARNESS: generated schema does not build: {}", err.0))),
    }
}

/// a generated dynamic schema under the default options and `k` drawn option sets; the first deviation decides
fn dynamic_case(s: &mut dyn Src, allow: &Allow, open: &[bool; 5], k: usize) -> Case {
    let (e, schema) = match gen_dynamic(s, allow) {
        Ok(x) => x,
        Err(c) => return c,
    };
    let what = show_expect(&e);
    let mut opts = vec![O::default()];
    for _ in 0..k {
        opts.push(gen_options(s));
    }
    let mut known: BTreeSet<String> = BTreeSet::new();
    let mut classes: BTreeSet<String> = BTreeSet::new();
    let mut nontrivial = false;
    for o in &opts {
        let sdl = if *o == O::default() { schema.sdl() } else { schema.sdl_with_options(o.build()) };
        let c = one_export(&sdl, &e, o, true, open, &what);
        nontrivial |= c.nontrivial;
        classes.extend(c.classes.iter().cloned());
        if c.is_fail() || matches!(c.verdict, vcore::drive::Verdict::Discard(_)) {
            return c;
        }
        if let vcore::drive::Verdict::Known(ids) = c.verdict {
            known.extend(ids);
        }
    }
    let text = format!("{}\noptions: {}", what, opts.iter().map(|o| o.show()).collect::<Vec<_>>().join(" | "));
    let mut c = if known.is_empty() { Case::pass(text) } else { Case::known(text, known.into_iter().collect()) };
    c.nontrivial = nontrivial;
    for cl in classes {
        c = c.class(cl);
    }
    c
}

// ---------------------------------------------------------------------------------------------------------------
// static family: `nst` (every element kind with nasty text, none of the constructs of the known findings) and `prb`
// (exactly those constructs). The expectation tables below are written by hand from the Rust definitions.

#[allow(non_snake_case, non_camel_case_types, dead_code, unused_variables)]
mod nst {
    use async_graphql::*;
    use futures_util::stream::{self, Stream};
    use serde::{Deserialize, Serialize};

    #[TypeDirective(
        location = "FieldDefinition",
        location = "Object",
        location = "Interface",
        location = "ArgumentDefinition",
        location = "InputObject",
        location = "InputFieldDefinition",
        location = "Enum",
        location = "EnumValue",
        composable = "https://example.com/note/v1.0"
    )]
    pub fn note(text: String, level: Option<i32>) {}

    #[TypeDirective(location = "FieldDefinition", repeatable)]
    pub fn again() {}

    #[doc = "Mood \"quoted\" 'single' 😀 \u{10ffff}"]
    #[doc = "second \\ line with a backslash and a tab\there"]
    #[derive(Enum, Copy, Clone, Eq, PartialEq)]
    #[graphql(directive = note::apply("enum \"x\" \\ \n \u{1} 😀".to_string(), Some(1)))]
    pub enum Mood {
        #[doc = "value doc \"\" two quotes"]
        #[graphql(directive = note::apply("value".to_string(), None))]
        Happy,
        #[graphql(deprecation = "back\\slash, tab\t, newline\n, bell\u{8}, feed\u{c}, cr\r, 😀, é")]
        Sad,
        #[graphql(deprecation)]
        Meh,
    }

    #[derive(Serialize, Deserialize, Clone)]
    pub struct Stamp(pub i64);
    scalar!(Stamp, "Stamp", "A stamp's \"description\"", "https://example.com/stamp");

    #[doc = "inner input"]
    #[derive(InputObject)]
    pub struct Inner {
        #[graphql(default = 7)]
        pub a: i32,
        #[graphql(default = "q\"b\\s\n\u{1}\u{7f}😀")]
        pub b: String,
    }
    impl Default for Inner {
        fn default() -> Self {
            Inner { a: -3, b: "de\"fault".to_string() }
        }
    }

    #[doc = "Filter input"]
    #[doc = "  indented \"second\" line"]
    #[derive(InputObject)]
    #[graphql(directive = note::apply("input".to_string(), Some(-2)))]
    pub struct Filter {
        #[doc = "text field: # not a comment, { } [ ] : = @ | & !"]
        #[graphql(default = "quote\" backslash\\ newline\n tab\t nul\u{0} del\u{7f} nbsp\u{a0} ls\u{2028} bom\u{feff} 😀 𝄞")]
        pub text: String,
        #[graphql(default_with = "vec![1, -2, 2147483647]")]
        pub nums: Vec<i32>,
        #[graphql(default_with = "Mood::Sad")]
        pub mood: Mood,
        #[graphql(default)]
        pub inner: Inner,
        #[graphql(deprecation = "old 'field' \\ gone")]
        pub old: Option<i32>,
        #[graphql(default = true, directive = note::apply("input field".to_string(), None))]
        pub flag: bool,
        #[graphql(default = 1.5)]
        pub ratio: f64,
        #[graphql(default_with = "vec![vec![Some(\"a\\\"b\".to_string()), None]]")]
        pub grid: Vec<Vec<Option<String>>>,
    }

    #[doc = "pick exactly \"one\""]
    #[derive(OneofObject)]
    pub enum Pick {
        #[doc = "by id"]
        ById(ID),
        ByName(String),
    }

    pub struct Dog;
    #[doc = "A dog \\ backslash"]
    #[doc = "and a second line"]
    #[Object(directive = note::apply("object".to_string(), None))]
    impl Dog {
        async fn id(&self) -> ID {
            ID::from("d")
        }
        #[doc = "name 'of' the \"dog\""]
        async fn name(&self, #[graphql(desc = "prefix \"desc\"", default = "Mr. \"X\" \\ \n")] prefix: String) -> String {
            prefix
        }
        #[graphql(deprecation = "use 'name' — 😀 \\ \t end", directive = again::apply(), directive = again::apply())]
        async fn age(&self) -> i32 {
            1
        }
    }

    pub struct Cat;
    #[Object]
    impl Cat {
        async fn id(&self) -> ID {
            ID::from("c")
        }
        async fn name(&self, #[graphql(default = "Mr. \"X\" \\ \n")] prefix: String) -> String {
            prefix
        }
        #[graphql(deprecation)]
        async fn lives(&self) -> Option<i32> {
            None
        }
    }

    pub struct Robot;
    #[Object]
    impl Robot {
        async fn id(&self) -> ID {
            ID::from("r")
        }
        #[doc = "serial \"number\""]
        async fn serial(&self) -> Option<Stamp> {
            None
        }
    }

    #[doc = "Named things"]
    #[derive(Interface)]
    #[graphql(
        field(name = "id", ty = "ID", desc = "the \"id\""),
        field(
            name = "name",
            ty = "String",
            desc = "interface name\nsecond line \\",
            arg(name = "prefix", ty = "String", desc = "interface 'arg' \"desc\"", default = "Mr. \"X\" \\ \n")
        )
    )]
    pub enum Named {
        Dog(Dog),
        Cat(Cat),
    }

    #[doc = "Node: everything with an id"]
    #[derive(Interface)]
    #[graphql(field(name = "id", ty = "ID"), directive = note::apply("interface".to_string(), Some(0)))]
    pub enum Node {
        Named(Named),
        Robot(Robot),
    }

    #[doc = "cats & dogs"]
    #[derive(Union)]
    pub enum Pet {
        Dog(Dog),
        Cat(Cat),
    }

    pub struct Query;
    #[doc = "The query root \"type\""]
    #[Object]
    impl Query {
        #[doc = "a pet"]
        async fn pet(
            &self,
            #[graphql(desc = "kind \\ of\npet \"multi-line\"", default = "dog")] kind: String,
            #[graphql(deprecation = "legacy 'argument' \\ 😀", directive = note::apply("argument".to_string(), None))] legacy: Option<i32>,
            #[graphql(deprecation)] unused: Option<bool>,
        ) -> Option<Pet> {
            None
        }
        async fn node(&self, id: ID) -> Option<Node> {
            None
        }
        async fn named(&self) -> Vec<Named> {
            vec![]
        }
        #[graphql(directive = note::apply("field \"x\"".to_string(), Some(2147483647)))]
        async fn search(&self, filter: Filter, #[graphql(default_with = "vec![Mood::Happy, Mood::Meh]")] moods: Vec<Mood>, inner: Option<Inner>) -> Vec<Dog> {
            vec![]
        }
        async fn pick(&self, p: Pick) -> Option<Stamp> {
            None
        }
    }

    pub struct Mutation;
    #[Object]
    impl Mutation {
        async fn set_mood(&self, #[graphql(default_with = "Mood::Happy")] mood: Mood) -> bool {
            true
        }
    }

    pub struct Subscription;
    #[Subscription]
    impl Subscription {
        #[doc = "ticks \"forever\""]
        async fn ticks(&self, #[graphql(default = 1)] step: i32) -> impl Stream<Item = i32> {
            stream::iter(vec![step])
        }
    }

    pub fn sdl(o: SDLExportOptions) -> String {
        Schema::build(Query, Mutation, Subscription).finish().sdl_with_options(o)
    }
}

#[allow(non_snake_case, non_camel_case_types, dead_code, unused_variables)]
mod prb {
    use async_graphql::*;

    #[TypeDirective(location = "Interface")]
    pub fn mark(n: i32) {}

    #[derive(SimpleObject)]
    pub struct Leaf {
        #[graphql(deprecation = "say \"no\" \\ twice \"\"")]
        pub a: i32,
        #[doc = "one line with a back\\slash and a \"quote\""]
        pub b: i32,
        #[doc = "has \"\"\" inside"]
        #[doc = "and \\\"\"\" too"]
        pub c: i32,
    }

    #[derive(Interface)]
    #[graphql(field(name = "a", ty = "&i32"), directive = mark::apply(1))]
    pub enum Mid {
        Leaf(Leaf),
    }

    #[derive(Interface)]
    #[graphql(field(name = "a", ty = "&i32"))]
    pub enum Base {
        Mid(Mid),
    }

    pub struct Query;
    #[Object]
    impl Query {
        async fn base(&self) -> Option<Base> {
            None
        }
    }

    pub fn sdl(o: SDLExportOptions) -> String {
        Schema::build(Query, EmptyMutation, EmptySubscription).finish().sdl_with_options(o)
    }
}

// ---- hand-written expectation tables

fn t(name: &str, kind: Kind) -> TypeDef {
    TypeDef::new(name, kind)
}
fn f(name: &str, ty: &str) -> FieldDef {
    FieldDef { name: name.into(), args: vec![], ty: Ty::parse(ty), desc: None, deprecated: None }
}
fn a(name: &str, ty: &str) -> ArgDef {
    ArgDef { name: name.into(), ty: Ty::parse(ty), default: None, desc: None, deprecated: None }
}
fn ev(name: &str) -> EnumValDef {
    EnumValDef { name: name.into(), desc: None, deprecated: None }
}
fn vs(x: &str) -> Val {
    Val::Str(x.into())
}
fn vi(x: i64) -> Val {
    Val::Int(x.to_string())
}
fn vl(xs: Vec<Val>) -> Val {
    Val::List(xs.into_iter().map(PVal::new).collect())
}
fn vo(xs: Vec<(&str, Val)>) -> Val {
    Val::Obj(xs.into_iter().map(|(k, v)| (Name::new(k), PVal::new(v))).collect())
}
trait With: Sized {
    fn d(self, desc: &str) -> Self;
    fn dep(self, reason: Option<&str>) -> Self;
}
impl With for FieldDef {
    fn d(mut self, desc: &str) -> Self {
        self.desc = Some(desc.into());
        self
    }
    fn dep(mut self, reason: Option<&str>) -> Self {
        self.deprecated = Some(reason.map(|r| r.to_string()));
        self
    }
}
impl With for ArgDef {
    fn d(mut self, desc: &str) -> Self {
        self.desc = Some(desc.into());
        self
    }
    fn dep(mut self, reason: Option<&str>) -> Self {
        self.deprecated = Some(reason.map(|r| r.to_string()));
        self
    }
}
impl With for EnumValDef {
    fn d(mut self, desc: &str) -> Self {
        self.desc = Some(desc.into());
        self
    }
    fn dep(mut self, reason: Option<&str>) -> Self {
        self.deprecated = Some(reason.map(|r| r.to_string()));
        self
    }
}
fn def(mut x: ArgDef, v: Val) -> ArgDef {
    x.default = Some(v);
    x
}
fn args(mut x: FieldDef, xs: Vec<ArgDef>) -> FieldDef {
    x.args = xs;
    x
}

fn expect_nst() -> Expect {
    let mut s = Sch { query: "Query".into(), mutation: Some("Mutation".into()), subscription: Some("Subscription".into()), ..Sch::default() };
    let mut add = |td: TypeDef| {
        s.types.insert(td.name.clone(), td);
    };
    let prefix_default = "Mr. \"X\" \\ \n";

    let mut mood = t("Mood", Kind::Enum);
    mood.desc = Some("Mood \"quoted\" 'single' 😀 \u{10ffff}\nsecond \\ line with a backslash and a tab\there".into());
    mood.values = vec![
        ev("HAPPY").d("value doc \"\" two quotes"),
        ev("SAD").dep(Some("back\\slash, tab\t, newline\n, bell\u{8}, feed\u{c}, cr\r, 😀, é")),
        ev("MEH").dep(None),
    ];
    add(mood);

    let mut stamp = t("Stamp", Kind::Scalar);
    stamp.desc = Some("A stamp's \"description\"".into());
    add(stamp);

    let mut inner = t("Inner", Kind::Input);
    inner.desc = Some("inner input".into());
    inner.input_fields = vec![def(a("a", "Int!"), vi(7)), def(a("b", "String!"), vs("q\"b\\s\n\u{1}\u{7f}😀"))];
    add(inner);

    let mut filter = t("Filter", Kind::Input);
    filter.desc = Some("Filter input\nindented \"second\" line".into());
    filter.input_fields = vec![
        def(a("text", "String!"), vs("quote\" backslash\\ newline\n tab\t nul\u{0} del\u{7f} nbsp\u{a0} ls\u{2028} bom\u{feff} 😀 𝄞")).d("text field: # not a comment, { } [ ] : = @ | & !"),
        def(a("nums", "[Int!]!"), vl(vec![vi(1), vi(-2), vi(2147483647)])),
        def(a("mood", "Mood!"), Val::Enum("SAD".into())),
        def(a("inner", "Inner!"), vo(vec![("a", vi(-3)), ("b", vs("de\"fault"))])),
        a("old", "Int").dep(Some("old 'field' \\ gone")),
        def(a("flag", "Boolean!"), Val::Bool(true)),
        def(a("ratio", "Float!"), Val::Float("1.5".into())),
        def(a("grid", "[[String]!]!"), vl(vec![vl(vec![vs("a\"b"), Val::Null])])),
    ];
    add(filter);

    let mut pick = t("Pick", Kind::Input);
    pick.desc = Some("pick exactly \"one\"".into());
    pick.one_of = true;
    pick.input_fields = vec![a("byId", "ID").d("by id"), a("byName", "String")];
    add(pick);

    let mut dog = t("Dog", Kind::Object);
    dog.desc = Some("A dog \\ backslash\nand a second line".into());
    dog.interfaces = vec!["Named".into()];
    dog.fields = vec![
        f("id", "ID!"),
        args(f("name", "String!").d("name 'of' the \"dog\""), vec![def(a("prefix", "String!"), vs(prefix_default)).d("prefix \"desc\"")]),
        f("age", "Int!").dep(Some("use 'name' — 😀 \\ \t end")),
    ];
    add(dog);

    let mut cat = t("Cat", Kind::Object);
    cat.interfaces = vec!["Named".into()];
    cat.fields = vec![f("id", "ID!"), args(f("name", "String!"), vec![def(a("prefix", "String!"), vs(prefix_default))]), f("lives", "Int").dep(None)];
    add(cat);

    let mut robot = t("Robot", Kind::Object);
    robot.interfaces = vec!["Node".into()];
    robot.fields = vec![f("id", "ID!"), f("serial", "Stamp").d("serial \"number\"")];
    add(robot);

    let mut named = t("Named", Kind::Interface);
    named.desc = Some("Named things".into());
    named.interfaces = vec!["Node".into()];
    named.fields = vec![
        f("id", "ID!").d("the \"id\""),
        args(f("name", "String!").d("interface name\nsecond line \\"), vec![def(a("prefix", "String!"), vs(prefix_default)).d("interface 'arg' \"desc\"")]),
    ];
    add(named);

    let mut node = t("Node", Kind::Interface);
    node.desc = Some("Node: everything with an id".into());
    node.fields = vec![f("id", "ID!")];
    add(node);

    let mut pet = t("Pet", Kind::Union);
    pet.desc = Some("cats & dogs".into());
    pet.members = vec!["Dog".into(), "Cat".into()];
    add(pet);

    let mut q = t("Query", Kind::Object);
    q.desc = Some("The query root \"type\"".into());
    q.fields = vec![
        args(
            f("pet", "Pet").d("a pet"),
            vec![
                def(a("kind", "String!"), vs("dog")).d("kind \\ of\npet \"multi-line\""),
                a("legacy", "Int").dep(Some("legacy 'argument' \\ 😀")),
                a("unused", "Boolean").dep(None),
            ],
        ),
        args(f("node", "Node"), vec![a("id", "ID!")]),
        f("named", "[Named!]!"),
        args(
            f("search", "[Dog!]!"),
            vec![a("filter", "Filter!"), def(a("moods", "[Mood!]!"), vl(vec![Val::Enum("HAPPY".into()), Val::Enum("MEH".into())])), a("inner", "Inner")],
        ),
        args(f("pick", "Stamp"), vec![a("p", "Pick!")]),
    ];
    add(q);

    let mut m = t("Mutation", Kind::Object);
    m.fields = vec![args(f("setMood", "Boolean!"), vec![def(a("mood", "Mood!"), Val::Enum("HAPPY".into()))])];
    add(m);

    let mut sub = t("Subscription", Kind::Object);
    sub.fields = vec![args(f("ticks", "Int!").d("ticks \"forever\""), vec![def(a("step", "Int!"), vi(1))])];
    add(sub);

    let note = |text: &str, level: Option<i64>| -> Applied {
        let mut v = vec![("text".to_string(), vs(text))];
        if let Some(l) = level {
            v.push(("level".to_string(), vi(l)));
        }
        ("note".to_string(), v)
    };
    let mut applied: BTreeMap<String, Vec<Applied>> = BTreeMap::new();
    applied.insert("Mood".into(), vec![note("enum \"x\" \\ \n \u{1} 😀", Some(1))]);
    applied.insert("Mood.HAPPY".into(), vec![note("value", None)]);
    applied.insert("Filter".into(), vec![note("input", Some(-2))]);
    applied.insert("Filter.flag".into(), vec![note("input field", None)]);
    applied.insert("Dog".into(), vec![note("object", None)]);
    applied.insert("Dog.age".into(), vec![("again".into(), vec![]), ("again".into(), vec![])]);
    applied.insert("Node".into(), vec![note("interface", Some(0))]);
    applied.insert("Query.pet(legacy)".into(), vec![note("argument", None)]);
    applied.insert("Query.search".into(), vec![note("field \"x\"", Some(2147483647))]);

    let locs = |xs: &[&str]| xs.iter().map(|x| x.to_string()).collect::<Vec<_>>();
    let custom_directives = vec![
        DirSig {
            name: "note".into(),
            args: vec![a("text", "String!"), a("level", "Int")],
            repeatable: false,
            locations: locs(&["FIELD_DEFINITION", "OBJECT", "INTERFACE", "ARGUMENT_DEFINITION", "INPUT_OBJECT", "INPUT_FIELD_DEFINITION", "ENUM", "ENUM_VALUE"]),
        },
        DirSig { name: "again".into(), args: vec![], repeatable: true, locations: locs(&["FIELD_DEFINITION"]) },
    ];
    let mut specified_by = BTreeMap::new();
    specified_by.insert("Stamp".to_string(), "https://example.com/stamp".to_string());
    Expect { sch: s, specified_by, custom_directives, applied }
}

fn expect_prb() -> Expect {
    let mut s = Sch { query: "Query".into(), ..Sch::default() };
    let mut leaf = t("Leaf", Kind::Object);
    leaf.interfaces = vec!["Mid".into()];
    leaf.fields = vec![
        f("a", "Int!").dep(Some("say \"no\" \\ twice \"\"")),
        f("b", "Int!").d("one line with a back\\slash and a \"quote\""),
        f("c", "Int!").d("has \"\"\" inside\nand \\\"\"\" too"),
    ];
    s.types.insert("Leaf".into(), leaf);
    let mut mid = t("Mid", Kind::Interface);
    mid.interfaces = vec!["Base".into()];
    mid.fields = vec![f("a", "Int!")];
    s.types.insert("Mid".into(), mid);
    let mut base = t("Base", Kind::Interface);
    base.fields = vec![f("a", "Int!")];
    s.types.insert("Base".into(), base);
    let mut q = t("Query", Kind::Object);
    q.fields = vec![f("base", "Base")];
    s.types.insert("Query".into(), q);
    let mut applied: BTreeMap<String, Vec<Applied>> = BTreeMap::new();
    applied.insert("Mid".into(), vec![("mark".into(), vec![("n".into(), vi(1))])]);
    let custom_directives = vec![DirSig { name: "mark".into(), args: vec![a("n", "Int!")], repeatable: false, locations: vec!["INTERFACE".into()] }];
    Expect { sch: s, specified_by: BTreeMap::new(), custom_directives, applied }
}

// ---------------------------------------------------------------------------------------------------------------

pub fn run(ctx: &mut Ctx) {
    ctx.rule = "sources: gen_sch dynamic schemas decorated with descriptions / deprecation reasons / string defaults drawn from quotes, triple quotes, backslashes, escape look-alikes, \
                TAB, non-BMP and odd Unicode, built with every description and deprecation forwarded; two derive-built static schemas with a hand-written expectation table (all element \
                kinds, custom directives, defaults of every value kind, interface implementing an interface, union, oneOf). Exports: 768 option sets (all 256 combinations of the 8 toggles, with use_space_ident at indent \
                widths 0/1/2/4/9) for the static schemas and 10 generated ones, default + 3 drawn option sets for every other generated schema. Oracle: parse_schema and the reference \
                parser accept the SDL and its read-back equals the source. Non-trivial = some text needs escaping, or an interface implements an interface, or the options are not the \
                default; distinct by rendered (source, options)"
        .into();
    ctx.assume("descriptions carry only text a block string can carry: no CR, no leading/trailing blank line, no common indentation (the first line starts with a non-blank character); raw control characters other than TAB/LF are not generated in descriptions, other than TAB/LF/CR/BS/FF not in deprecation reasons (SourceCharacter differs between specification editions); default values use any character");
    ctx.assume("the order of fields / arguments / enum values / union members / interfaces is only checked when a sorted_* option asks for an order; the order of type definitions is not part of the property");
    ctx.assume("definitions of the specification's built-in directives may be left out of the SDL; a printed one must have the specified arguments, types, defaults and locations; descriptions of directives and of directive arguments are not compared");
    ctx.assume("federation option: compared against the documented subgraph form — `extend schema @link(..)` instead of a schema definition, root types by their default names, the subscription root left out (enable_subscription_in_federation is not used); everything else must round-trip as without the option. No schema here uses federation attributes, so @key/@shareable/.. and _Service/_Any/_Entity never occur");
    ctx.assume("only optional arguments and input fields are deprecated; oneOf fields carry no defaults or deprecations; @specifiedBy is required only under include_specified_by");
    let mut open = [false; 5];
    for (i, id) in FINDINGS.iter().enumerate() {
        open[i] = ctx.open(id);
        if open[i] {
            ctx.excluded(id);
        }
    }
    let main_allow = Allow { quote_in_reason: !open[0], triple_quote_in_description: !open[1], backslash_in_one_line_description: !open[2], interface_inheritance: !open[3] };
    let all = all_options();

    // ---- static family, every option combination
    let t0 = std::time::Instant::now();
    let (e_nst, e_prb) = (expect_nst(), expect_prb());
    let mut n_enum = 0u64;
    // (an enumeration stops reporting after a few failures: one broken printer fails under every option set)
    let mut failures = 0;
    for o in &all {
        if failures >= 4 {
            break;
        }
        let c = one_export(&nst::sdl(o.build()), &e_nst, o, false, &open, "static schema nst").class("static:nst");
        failures += ctx.check_case("static-options", c, json!({"schema": "nst", "options": o.show()})) as u32;
        let c = one_export(&prb::sdl(o.build()), &e_prb, o, false, &open, "static schema prb (constructs of the findings)").class("static:prb");
        failures += ctx.check_case("static-options", c, json!({"schema": "prb", "options": o.show()})) as u32;
        n_enum += 2;
    }
    ctx.enumerated("static-options", n_enum, failures < 4, t0);

    // ---- generated dynamic schemas, every option combination on a few
    let t1 = std::time::Instant::now();
    let mut n_dyn = 0u64;
    for (k, choices) in ctx.random_vectors("dynamic-options", ctx.tier.pick(10, 60), 500).iter().enumerate() {
        let mut src = vcore::src::VecSrc::new(choices);
        match gen_dynamic(&mut src, &main_allow) {
            Ok((e, schema)) => {
                let what = format!("generated schema #{}: {}", k, show_expect(&e));
                for o in &all {
                    if failures >= 4 {
                        break;
                    }
                    let c = one_export(&schema.sdl_with_options(o.build()), &e, o, true, &open, &what).class("dynamic:all-options");
                    failures += ctx.check_case("dynamic-options", c, json!({"choices": choices, "options": o.show()})) as u32;
                    n_dyn += 1;
                }
            }
            Err(c) => {
                ctx.check_case("dynamic-options", c, json!({"choices": choices}));
            }
        }
    }
    ctx.enumerated("dynamic-options", n_dyn, failures < 4, t1);
    ctx.note("option_sets_per_enumerated_schema", json!(all.len()));

    // ---- generated dynamic schemas, drawn options
    let n = ctx.tier.pick(6_000, 200_000);
    ctx.stream("dynamic", n, 900, |s| dynamic_case(s, &main_allow, &open, 3));
    if open[..4].iter().any(|x| *x) {
        let probe_allow = Allow { quote_in_reason: true, triple_quote_in_description: true, backslash_in_one_line_description: true, interface_inheritance: true };
        ctx.stream("probe-findings", n / 6, 900, |s| dynamic_case(s, &probe_allow, &open, 3));
    }
    ctx.floor("text-needing-escape", 500);
    ctx.floor("non-default-options", 500);
    ctx.floor("option:federation", 200);
    ctx.floor("option:prefer_single_line_descriptions", 200);
}
