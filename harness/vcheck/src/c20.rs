//! C20 — the response cache policy is never looser than the data it contains.
//!
//! Schema K: 18 object types (public/private x {no hint, 60, 5, 1, no-cache} at type level, varying hints on `id`,
//! fixed hints on the other fields), reachable through object-, interface- and union-typed fields. The hints are
//! written once (macro input) and feed both the derive attributes and the reference table. Resolvers are data
//! driven (a per-request world seed decides concrete types, nulls and list lengths) and record which
//! (object type, field) pairs produced data; the oracle combines the declared policies of exactly those.
use async_graphql::{BatchResponse, CacheControl, Context, EmptyMutation, EmptySubscription, Interface, Object, Request, Response, Schema, Union};
use serde_json::json;
use std::sync::{Arc, Mutex};
use std::time::Instant;
use vcore::{Case, Ctx, Src};

#[derive(Clone, Copy, PartialEq, Eq, Debug)]
struct Pol {
    public: bool,
    max_age: i32,
}
const NONE: Pol = Pol { public: true, max_age: 0 };

impl Pol {
    fn show(&self) -> String {
        format!("{}/{}", if self.public { "public" } else { "private" }, if self.max_age == -1 { "no-cache".to_string() } else { self.max_age.to_string() })
    }
}

/// the documented meaning of the hint tokens: `private`, `no_cache`, `max_age = N`
macro_rules! pol {
    (@acc $p:expr, $m:expr;) => { Pol { public: $p, max_age: $m } };
    (@acc $p:expr, $m:expr; private $(, $($r:tt)*)?) => { pol!(@acc false, $m; $($($r)*)?) };
    (@acc $p:expr, $m:expr; no_cache $(, $($r:tt)*)?) => { pol!(@acc $p, -1; $($($r)*)?) };
    (@acc $p:expr, $m:expr; max_age = $v:literal $(, $($r:tt)*)?) => { pol!(@acc $p, $v; $($($r)*)?) };
    ($($t:tt)*) => { pol!(@acc true, 0; $($t)*) };
}

/// The statement's combination: private if any private; no-cache if any no-cache; else the least positive max-age.
fn combine(ps: &[Pol]) -> Pol {
    Pol {
        public: ps.iter().all(|p| p.public),
        max_age: if ps.iter().any(|p| p.max_age == -1) { -1 } else { ps.iter().map(|p| p.max_age).filter(|m| *m > 0).min().unwrap_or(0) },
    }
}
/// `actual` is at least as restrictive as every policy in `ps`
fn safe(actual: Pol, ps: &[Pol]) -> bool {
    if ps.iter().any(|p| !p.public) && actual.public {
        return false;
    }
    if ps.iter().any(|p| p.max_age == -1) {
        return actual.max_age == -1;
    }
    ps.iter().filter(|p| p.max_age > 0).all(|p| actual.max_age <= p.max_age)
}

// ---------------------------------------------------------------------------------------------------------------
// world and trace

#[derive(Clone, Copy, Debug)]
struct Tr {
    ty: &'static str,
    field: &'static str,
    /// the object was reached through at least one interface- or union-typed field
    abs: bool,
}
#[derive(Clone)]
struct World {
    /// nothing is null, no list is empty
    full: bool,
    trace: Arc<Mutex<Vec<Tr>>>,
}
fn mix(h: u64, salt: u64) -> u64 {
    let mut z = h.wrapping_add(salt.wrapping_mul(0x9e3779b97f4a7c15)).wrapping_add(0x9e3779b97f4a7c15);
    z = (z ^ (z >> 30)).wrapping_mul(0xbf58476d1ce4e5b9);
    z = (z ^ (z >> 27)).wrapping_mul(0x94d049bb133111eb);
    z ^ (z >> 31)
}
fn tr(ctx: &Context<'_>, ty: &'static str, field: &'static str, abs: bool) -> bool {
    let w = ctx.data_unchecked::<World>();
    w.trace.lock().unwrap().push(Tr { ty, field, abs });
    w.full
}
fn len(full: bool, h: u64) -> u64 {
    if full {
        1 + (h >> 5) % 2
    } else {
        (h >> 5) % 3
    }
}
fn null(full: bool, h: u64) -> bool {
    !full && (h >> 11) % 3 == 0
}

struct TypeM {
    name: &'static str,
    pol: Pol,
    id_pol: Pol,
    next: &'static str,
    root: &'static str,
}

macro_rules! kobj {
    ($T:ident [$($tcc:tt)*] [$($idcc:tt)*] $N:ident) => {
        #[derive(Clone, Copy)]
        struct $T {
            h: u64,
            abs: bool,
        }
        #[Object(cache_control($($tcc)*))]
        impl $T {
            #[graphql(cache_control($($idcc)*))]
            async fn id(&self, ctx: &Context<'_>) -> i32 {
                tr(ctx, stringify!($T), "id", self.abs);
                (self.h % 1000) as i32
            }
            async fn plain(&self, ctx: &Context<'_>) -> i32 {
                tr(ctx, stringify!($T), "plain", self.abs);
                1
            }
            #[graphql(cache_control(max_age = 60))]
            async fn f60(&self, ctx: &Context<'_>) -> i32 {
                tr(ctx, stringify!($T), "f60", self.abs);
                2
            }
            #[graphql(cache_control(max_age = 5))]
            async fn f5(&self, ctx: &Context<'_>) -> i32 {
                tr(ctx, stringify!($T), "f5", self.abs);
                3
            }
            #[graphql(cache_control(no_cache))]
            async fn fnc(&self, ctx: &Context<'_>) -> i32 {
                tr(ctx, stringify!($T), "fnc", self.abs);
                4
            }
            #[graphql(cache_control(private))]
            async fn fpriv(&self, ctx: &Context<'_>) -> i32 {
                tr(ctx, stringify!($T), "fpriv", self.abs);
                5
            }
            #[graphql(cache_control(private, max_age = 30))]
            async fn fpriv30(&self, ctx: &Context<'_>) -> i32 {
                tr(ctx, stringify!($T), "fpriv30", self.abs);
                6
            }
            async fn obj(&self, ctx: &Context<'_>) -> $N {
                tr(ctx, stringify!($T), "obj", self.abs);
                $N { h: mix(self.h, 1), abs: self.abs }
            }
            async fn objs(&self, ctx: &Context<'_>) -> Vec<$N> {
                let full = tr(ctx, stringify!($T), "objs", self.abs);
                let h = mix(self.h, 2);
                (0..len(full, h)).map(|k| $N { h: mix(h, k), abs: self.abs }).collect()
            }
            async fn opt(&self, ctx: &Context<'_>) -> Option<$N> {
                let full = tr(ctx, stringify!($T), "opt", self.abs);
                let h = mix(self.h, 3);
                if null(full, h) { None } else { Some($N { h, abs: self.abs }) }
            }
            #[graphql(cache_control(private))]
            async fn pobj(&self, ctx: &Context<'_>) -> $N {
                tr(ctx, stringify!($T), "pobj", self.abs);
                $N { h: mix(self.h, 4), abs: self.abs }
            }
            async fn node(&self, ctx: &Context<'_>) -> Node {
                tr(ctx, stringify!($T), "node", self.abs);
                mk_node(mix(self.h, 5))
            }
            async fn nodes(&self, ctx: &Context<'_>) -> Vec<Node> {
                let full = tr(ctx, stringify!($T), "nodes", self.abs);
                let h = mix(self.h, 6);
                (0..len(full, h)).map(|k| mk_node(mix(h, k))).collect()
            }
            #[graphql(cache_control(max_age = 10))]
            async fn cnode(&self, ctx: &Context<'_>) -> Option<Node> {
                let full = tr(ctx, stringify!($T), "cnode", self.abs);
                let h = mix(self.h, 7);
                if null(full, h) { None } else { Some(mk_node(h)) }
            }
            async fn named(&self, ctx: &Context<'_>) -> Named {
                tr(ctx, stringify!($T), "named", self.abs);
                mk_named(mix(self.h, 8))
            }
            async fn item(&self, ctx: &Context<'_>) -> Item {
                tr(ctx, stringify!($T), "item", self.abs);
                mk_item(mix(self.h, 9))
            }
            async fn items(&self, ctx: &Context<'_>) -> Vec<Item> {
                let full = tr(ctx, stringify!($T), "items", self.abs);
                let h = mix(self.h, 10);
                (0..len(full, h)).map(|k| mk_item(mix(h, k))).collect()
            }
            async fn thing(&self, ctx: &Context<'_>) -> Option<Thing> {
                let full = tr(ctx, stringify!($T), "thing", self.abs);
                let h = mix(self.h, 11);
                if null(full, h) { None } else { Some(mk_thing(h)) }
            }
        }
    };
}

macro_rules! kabs {
    ($E:ident $mk:ident $tbl:ident [$($T:ident),*]) => {
        const $tbl: &[&str] = &[$(stringify!($T)),*];
        #[allow(unused_assignments)]
        fn $mk(h: u64) -> $E {
            let k = (h >> 17) % $tbl.len() as u64;
            let mut i = 0u64;
            $( if k == i { return $E::$T($T { h, abs: true }); } i += 1; )*
            unreachable!()
        }
    };
}

macro_rules! kschema {
    ($( $T:ident $root:ident [$($tcc:tt)*] id [$($idcc:tt)*] next $N:ident ;)*) => {
        $( kobj!($T [$($tcc)*] [$($idcc)*] $N); )*

        const TYPES: &[TypeM] = &[
            $( TypeM { name: stringify!($T), pol: pol!($($tcc)*), id_pol: pol!($($idcc)*), next: stringify!($N), root: stringify!($root) } ),*
        ];

        #[derive(Interface)]
        #[graphql(field(name = "id", ty = "i32"), field(name = "plain", ty = "i32"), field(name = "fpriv", ty = "i32"))]
        enum Node { $( $T($T) ),* }
        kabs!(Node mk_node NODE [$($T),*]);

        struct Query;
        #[Object]
        impl Query {
            $(
                async fn $root(&self, ctx: &Context<'_>, seed: i32) -> $T {
                    tr(ctx, "Query", stringify!($root), false);
                    $T { h: mix(seed as u64, 100), abs: false }
                }
            )*
            async fn node(&self, ctx: &Context<'_>, seed: i32) -> Node {
                tr(ctx, "Query", "node", false);
                mk_node(mix(seed as u64, 101))
            }
            async fn nodes(&self, ctx: &Context<'_>, seed: i32) -> Vec<Node> {
                let full = tr(ctx, "Query", "nodes", false);
                let h = mix(seed as u64, 102);
                (0..len(full, h)).map(|k| mk_node(mix(h, k))).collect()
            }
            async fn named(&self, ctx: &Context<'_>, seed: i32) -> Named {
                tr(ctx, "Query", "named", false);
                mk_named(mix(seed as u64, 103))
            }
            async fn item(&self, ctx: &Context<'_>, seed: i32) -> Item {
                tr(ctx, "Query", "item", false);
                mk_item(mix(seed as u64, 104))
            }
            async fn items(&self, ctx: &Context<'_>, seed: i32) -> Vec<Item> {
                let full = tr(ctx, "Query", "items", false);
                let h = mix(seed as u64, 105);
                (0..len(full, h)).map(|k| mk_item(mix(h, k))).collect()
            }
            async fn thing(&self, ctx: &Context<'_>, seed: i32) -> Option<Thing> {
                let full = tr(ctx, "Query", "thing", false);
                let h = mix(seed as u64, 106);
                if null(full, h) { None } else { Some(mk_thing(h)) }
            }
            #[graphql(cache_control(private))]
            async fn pnode(&self, ctx: &Context<'_>, seed: i32) -> Node {
                tr(ctx, "Query", "pnode", false);
                mk_node(mix(seed as u64, 107))
            }
            #[graphql(cache_control(max_age = 10))]
            async fn cnode(&self, ctx: &Context<'_>, seed: i32) -> Node {
                tr(ctx, "Query", "cnode", false);
                mk_node(mix(seed as u64, 108))
            }
            /// always the private, no-cache type T09 behind an interface-typed field
            async fn np(&self, ctx: &Context<'_>) -> Node {
                tr(ctx, "Query", "np", false);
                Node::T09(T09 { h: 9, abs: true })
            }
            /// always T09 behind a union-typed field
            async fn ip(&self, ctx: &Context<'_>) -> Item {
                tr(ctx, "Query", "ip", false);
                Item::T09(T09 { h: 9, abs: true })
            }
            /// always T13 (public/60, `id` private/5) behind an interface-typed field
            async fn n13(&self, ctx: &Context<'_>) -> Named {
                tr(ctx, "Query", "n13", false);
                Named::T13(T13 { h: 13, abs: true })
            }
        }
    };
}

kschema! {
    T00 t00 []                      id []                       next T07;
    T01 t01 [max_age = 60]          id []                       next T05;
    T02 t02 [max_age = 5]           id [max_age = 60]           next T00;
    T03 t03 [max_age = 1]           id []                       next T09;
    T04 t04 [no_cache]              id []                       next T01;
    T05 t05 [private]               id []                       next T02;
    T06 t06 [private, max_age = 60] id []                       next T16;
    T07 t07 [private, max_age = 5]  id [max_age = 5]            next T10;
    T08 t08 [private, max_age = 1]  id []                       next T00;
    T09 t09 [private, no_cache]     id []                       next T01;
    T10 t10 []                      id [private]                next T11;
    T11 t11 []                      id [no_cache]               next T12;
    T12 t12 []                      id [max_age = 1]            next T13;
    T13 t13 [max_age = 60]          id [private, max_age = 5]   next T14;
    T14 t14 [private, max_age = 60] id [max_age = 5]            next T15;
    T15 t15 [max_age = 5]           id [no_cache]               next T16;
    T16 t16 []                      id [max_age = 60]           next T17;
    T17 t17 [private]               id [private, no_cache]      next T03;
}

#[derive(Interface)]
#[graphql(field(name = "id", ty = "i32"))]
enum Named {
    T00(T00),
    T05(T05),
    T09(T09),
    T10(T10),
    T13(T13),
    T16(T16),
}
kabs!(Named mk_named NAMED [T00, T05, T09, T10, T13, T16]);

#[derive(Union)]
enum Item {
    T00(T00),
    T01(T01),
    T02(T02),
    T05(T05),
    T06(T06),
    T09(T09),
    T11(T11),
}
kabs!(Item mk_item ITEM [T00, T01, T02, T05, T06, T09, T11]);

#[derive(Union)]
enum Thing {
    T03(T03),
    T04(T04),
    T07(T07),
    T08(T08),
    T12(T12),
    T17(T17),
}
kabs!(Thing mk_thing THING [T03, T04, T07, T08, T12, T17]);

// ---------------------------------------------------------------------------------------------------------------
// hand-written model of K (what a client can select where, and which declared policy belongs to it)

#[derive(Clone, Copy, PartialEq, Eq, Debug)]
enum Ty {
    Query,
    Obj(usize),
    Node,
    Named,
    Item,
    Thing,
}
impl Ty {
    fn name(self) -> &'static str {
        match self {
            Ty::Query => "Query",
            Ty::Obj(i) => TYPES[i].name,
            Ty::Node => "Node",
            Ty::Named => "Named",
            Ty::Item => "Item",
            Ty::Thing => "Thing",
        }
    }
    fn is_object(self) -> bool {
        matches!(self, Ty::Query | Ty::Obj(_))
    }
    fn is_interface(self) -> bool {
        matches!(self, Ty::Node | Ty::Named)
    }
    /// concrete object types a value of this static type can have (indices into TYPES; Query = usize::MAX)
    fn possible(self) -> Vec<usize> {
        let of = |names: &[&str]| names.iter().map(|n| idx(n)).collect();
        match self {
            Ty::Query => vec![usize::MAX],
            Ty::Obj(i) => vec![i],
            Ty::Node => of(NODE),
            Ty::Named => of(NAMED),
            Ty::Item => of(ITEM),
            Ty::Thing => of(THING),
        }
    }
    fn type_pol(self) -> Pol {
        match self {
            Ty::Obj(i) => TYPES[i].pol,
            _ => NONE,
        }
    }
}
fn idx(name: &str) -> usize {
    TYPES.iter().position(|t| t.name == name).unwrap()
}

#[derive(Clone, Copy)]
struct FieldM {
    name: &'static str,
    pol: Pol,
    target: Option<Ty>,
    /// takes the `seed` argument (root fields)
    seeded: bool,
}
fn fm(name: &'static str, pol: Pol, target: Option<Ty>) -> FieldM {
    FieldM { name, pol, target, seeded: false }
}
fn fields(ty: Ty) -> Vec<FieldM> {
    match ty {
        Ty::Obj(i) => {
            let next = Ty::Obj(idx(TYPES[i].next));
            vec![
                fm("id", TYPES[i].id_pol, None),
                fm("plain", NONE, None),
                fm("f60", pol!(max_age = 60), None),
                fm("f5", pol!(max_age = 5), None),
                fm("fnc", pol!(no_cache), None),
                fm("fpriv", pol!(private), None),
                fm("fpriv30", pol!(private, max_age = 30), None),
                fm("obj", NONE, Some(next)),
                fm("objs", NONE, Some(next)),
                fm("opt", NONE, Some(next)),
                fm("pobj", pol!(private), Some(next)),
                fm("node", NONE, Some(Ty::Node)),
                fm("nodes", NONE, Some(Ty::Node)),
                fm("cnode", pol!(max_age = 10), Some(Ty::Node)),
                fm("named", NONE, Some(Ty::Named)),
                fm("item", NONE, Some(Ty::Item)),
                fm("items", NONE, Some(Ty::Item)),
                fm("thing", NONE, Some(Ty::Thing)),
            ]
        }
        // interface fields cannot carry a cache hint
        Ty::Node => vec![fm("id", NONE, None), fm("plain", NONE, None), fm("fpriv", NONE, None)],
        Ty::Named => vec![fm("id", NONE, None)],
        Ty::Item | Ty::Thing => vec![],
        Ty::Query => {
            let mut v: Vec<FieldM> = TYPES.iter().enumerate().map(|(i, t)| FieldM { name: t.root, pol: NONE, target: Some(Ty::Obj(i)), seeded: true }).collect();
            for (n, p, t) in [
                ("node", NONE, Ty::Node),
                ("nodes", NONE, Ty::Node),
                ("named", NONE, Ty::Named),
                ("item", NONE, Ty::Item),
                ("items", NONE, Ty::Item),
                ("thing", NONE, Ty::Thing),
                ("pnode", pol!(private), Ty::Node),
                ("cnode", pol!(max_age = 10), Ty::Node),
            ] {
                v.push(FieldM { name: n, pol: p, target: Some(t), seeded: true });
            }
            v.push(fm("np", NONE, Some(Ty::Node)));
            v.push(fm("ip", NONE, Some(Ty::Item)));
            v.push(fm("n13", NONE, Some(Ty::Named)));
            v
        }
    }
}
/// declared policy of a field of a concrete object type, by names (for the trace)
fn declared(ty: &str, field: &str) -> (Pol, Pol) {
    let t = if ty == "Query" { Ty::Query } else { Ty::Obj(idx(ty)) };
    let f = fields(t).into_iter().find(|f| f.name == field).unwrap_or_else(|| panic!("model has no field {}.{}", ty, field));
    (t.type_pol(), f.pol)
}

// ---------------------------------------------------------------------------------------------------------------
// documents

#[derive(Clone, Debug)]
enum Sel {
    Typename,
    Field { alias: Option<String>, f: &'static str, seed: Option<i32>, sub: Option<(Ty, Vec<Sel>)> },
    Inline { on: Option<Ty>, sub: Vec<Sel> },
    Spread(usize),
}
#[derive(Clone, Debug)]
struct Frag {
    on: Ty,
    sub: Vec<Sel>,
}
struct Doc {
    ops: Vec<(Option<String>, Vec<Sel>)>,
    frags: Vec<Frag>,
}

fn print_sels(out: &mut String, sels: &[Sel]) {
    out.push_str("{ ");
    for s in sels {
        match s {
            Sel::Typename => out.push_str("__typename "),
            Sel::Field { alias, f, seed, sub } => {
                if let Some(a) = alias {
                    out.push_str(a);
                    out.push_str(": ");
                }
                out.push_str(f);
                if let Some(k) = seed {
                    out.push_str(&format!("(seed: {})", k));
                }
                out.push(' ');
                if let Some((_, sub)) = sub {
                    print_sels(out, sub);
                }
            }
            Sel::Inline { on, sub } => {
                out.push_str("... ");
                if let Some(t) = on {
                    out.push_str(&format!("on {} ", t.name()));
                }
                print_sels(out, sub);
            }
            Sel::Spread(i) => out.push_str(&format!("...F{} ", i)),
        }
    }
    out.push_str("} ");
}
fn print_doc(d: &Doc) -> String {
    let mut out = String::new();
    for (name, sels) in &d.ops {
        if let Some(n) = name {
            out.push_str(&format!("query {} ", n));
        }
        print_sels(&mut out, sels);
    }
    for (i, f) in d.frags.iter().enumerate() {
        out.push_str(&format!("fragment F{} on {} ", i, f.on.name()));
        print_sels(&mut out, &f.sub);
    }
    out.trim_end().to_string()
}

#[derive(Clone, Copy)]
struct Cfg {
    /// interface- and union-typed fields and abstract type conditions may be used
    abstract_types: bool,
    /// fields may be selected directly on an interface-typed selection set (the construct of C20-F1)
    iface_direct: bool,
    /// a named fragment's type condition may differ from the static type it is spread in (the construct of C20-F2)
    frag_retype: bool,
    /// weight of named-fragment spreads among the selection kinds
    w_spread: u32,
    max_depth: usize,
}

struct G<'a> {
    s: &'a mut dyn Src,
    cfg: Cfg,
    frags: Vec<Frag>,
    aliases: usize,
    /// one `seed` argument value per document, so that equal response keys always carry equal arguments
    seed: i32,
}

fn overlaps(a: Ty, b: Ty) -> bool {
    let pb = b.possible();
    a.possible().iter().any(|x| pb.contains(x))
}

impl<'a> G<'a> {
    fn field(&mut self, ty: Ty, depth: usize, want_link: bool) -> Option<Sel> {
        let all = fields(ty);
        let cands: Vec<&FieldM> = all
            .iter()
            .filter(|f| match f.target {
                None => !want_link,
                Some(t) => want_link && depth > 0 && (self.cfg.abstract_types || t.is_object()),
            })
            .collect();
        if cands.is_empty() {
            return None;
        }
        // `id` / `plain` (hint varies by type / no hint) and abstract targets are preferred, so that the binding hint
        // is often one that sits behind an interface or union
        let weights: Vec<u32> = cands
            .iter()
            .map(|f| match f.target {
                None => if f.name == "id" || f.name == "plain" { 5 } else { 1 },
                Some(t) => if t.is_object() { 1 } else { 2 },
            })
            .collect();
        let f = *cands[self.s.weighted(&weights)];
        let alias = if self.s.chance(1, 5) {
            self.aliases += 1;
            Some(format!("a{}", self.aliases))
        } else {
            None
        };
        let seed = if f.seeded { Some(self.seed) } else { None };
        let sub = f.target.map(|t| (t, self.selset(t, depth - 1, 0)));
        Some(Sel::Field { alias, f: f.name, seed, sub })
    }

    /// a type condition that may be spread inside a selection set of static type `ty`
    fn condition(&mut self, ty: Ty) -> Ty {
        if !self.cfg.abstract_types {
            return ty;
        }
        let mut c: Vec<Ty> = vec![];
        if ty.is_object() {
            c.extend([ty, ty, ty]);
            for a in [Ty::Node, Ty::Named] {
                if overlaps(a, ty) {
                    c.push(a);
                }
            }
        } else {
            // concrete members first (index 0 = simplest), then the abstract types that overlap
            c.extend(ty.possible().into_iter().map(Ty::Obj));
            let n = c.len();
            for a in [Ty::Node, Ty::Named, Ty::Item, Ty::Thing] {
                if overlaps(a, ty) {
                    for _ in 0..(n / 6).max(1) {
                        c.push(a);
                    }
                }
            }
        }
        c[self.s.choose(c.len())]
    }

    fn selset(&mut self, ty: Ty, depth: usize, fd: usize) -> Vec<Sel> {
        let mut out = vec![];
        let direct_fields = ty.is_object() || (ty.is_interface() && self.cfg.iface_direct);
        // an object-typed selection set always emits at least one real field of the object
        if ty.is_object() {
            let link = depth > 0 && self.s.chance(1, 2);
            let f = self.field(ty, depth, link).or_else(|| self.field(ty, depth, !link)).unwrap();
            out.push(f);
        }
        let extra = if ty.is_object() { self.s.choose(4) } else { 1 + self.s.choose(3) };
        for _ in 0..extra {
            let k = if fd >= 2 {
                self.s.weighted(&[5, 4, 1])
            } else {
                self.s.weighted(&[5, 4, 1, 4, 1, self.cfg.w_spread])
            };
            let sel = match k {
                0 if direct_fields => self.field(ty, depth, false),
                1 if direct_fields => self.field(ty, depth, true),
                0 | 1 | 2 => Some(Sel::Typename),
                3 => {
                    let on = self.condition(ty);
                    Some(Sel::Inline { on: Some(on), sub: self.selset(on, depth, fd + 1) })
                }
                4 => Some(Sel::Inline { on: None, sub: self.selset(ty, depth, fd + 1) }),
                _ => {
                    // reuse a finished fragment that may be spread here, or define a new one
                    let retype = self.cfg.abstract_types && self.cfg.frag_retype;
                    let reusable: Vec<usize> = (0..self.frags.len()).filter(|i| overlaps(self.frags[*i].on, ty) && (retype || self.frags[*i].on == ty)).collect();
                    if !reusable.is_empty() && (self.frags.len() >= 4 || self.s.bool()) {
                        Some(Sel::Spread(reusable[self.s.choose(reusable.len())]))
                    } else if self.frags.len() < 4 {
                        let on = if retype { self.condition(ty) } else { ty };
                        let sub = self.selset(on, depth.min(1), fd + 1);
                        self.frags.push(Frag { on, sub });
                        Some(Sel::Spread(self.frags.len() - 1))
                    } else {
                        None
                    }
                }
            };
            out.extend(sel);
        }
        if out.is_empty() {
            out.push(Sel::Typename);
        }
        out
    }
}

fn gen_doc(s: &mut dyn Src, cfg: Cfg, multi_op: bool) -> (Doc, Option<String>) {
    let seed = s.choose(64) as i32;
    let mut g = G { s, cfg, frags: vec![], aliases: 0, seed };
    let depth = 1 + g.s.choose(cfg.max_depth);
    let first = g.selset(Ty::Query, depth, 0);
    let mut ops = vec![];
    let mut opname = None;
    if multi_op && g.s.chance(1, 6) {
        let second = g.selset(Ty::Query, depth, 0);
        // the executed operation is A; B is only validated
        if g.s.bool() {
            ops.push((Some("A".to_string()), first));
            ops.push((Some("B".to_string()), second));
        } else {
            ops.push((Some("B".to_string()), second));
            ops.push((Some("A".to_string()), first));
        }
        opname = Some("A".to_string());
    } else if g.s.chance(1, 4) {
        ops.push((Some("Q".to_string()), first));
    } else {
        ops.push((None, first));
    }
    (Doc { ops, frags: g.frags }, opname)
}

/// What the response policy would be under a static computation over the document (every operation, fragments
/// at their spreads), with the quirks of the findings switched on or off:
/// * C20-F1 on: policies are looked up at the static type of the enclosing selection set only, so a field selected
///   on an interface contributes nothing; off: such a field contributes the type policy and the same-named field's
///   policy of every object type implementing the interface.
/// * C20-F2 on: the selection set of a named fragment is evaluated at the static type of the selection set it is
///   spread in (its type condition is ignored; fields unknown there contribute nothing and lose the type below
///   them); off: at its type condition.
fn predict(d: &Doc, f1: bool, f2: bool) -> Pol {
    fn walk(d: &Doc, sels: &[Sel], ty: Option<Ty>, f1: bool, f2: bool, acc: &mut Vec<Pol>) {
        if let Some(t) = ty {
            acc.push(t.type_pol());
        }
        for s in sels {
            match s {
                Sel::Typename => {}
                Sel::Field { f, sub, .. } => {
                    let found = ty.and_then(|t| fields(t).into_iter().find(|x| x.name == *f));
                    if let Some(fm) = &found {
                        acc.push(fm.pol);
                    }
                    if let (Some(t), false, true) = (ty, f1, found.is_some()) {
                        if t.is_interface() {
                            for p in t.possible() {
                                acc.push(TYPES[p].pol);
                                acc.extend(fields(Ty::Obj(p)).into_iter().find(|x| x.name == *f).map(|x| x.pol));
                            }
                        }
                    }
                    if let Some((_, sub)) = sub {
                        walk(d, sub, found.and_then(|fm| fm.target), f1, f2, acc);
                    }
                }
                Sel::Inline { on, sub } => walk(d, sub, on.or(ty), f1, f2, acc),
                Sel::Spread(i) => walk(d, &d.frags[*i].sub, if f2 { ty } else { Some(d.frags[*i].on) }, f1, f2, acc),
            }
        }
    }
    let mut acc = vec![];
    for (_, sels) in &d.ops {
        walk(d, sels, Some(Ty::Query), f1, f2, &mut acc);
    }
    combine(&acc)
}

fn uses_abstract(d: &Doc) -> bool {
    fn any(sels: &[Sel]) -> bool {
        sels.iter().any(|s| match s {
            Sel::Field { sub: Some((t, sub)), .. } => !t.is_object() || any(sub),
            Sel::Inline { on, sub } => on.map(|t| !t.is_object()).unwrap_or(false) || any(sub),
            _ => false,
        })
    }
    d.ops.iter().any(|(_, s)| any(s)) || d.frags.iter().any(|f| !f.on.is_object() || any(&f.sub))
}

struct K {
    schema: Schema<Query, EmptyMutation, EmptySubscription>,
}

/// run one document; `exact` additionally demands equality with the combination (object-only documents)
fn doc_case(k: &K, open: [bool; 2], d: &Doc, opname: Option<String>, full: bool, exact: bool) -> Case {
    let text = print_doc(d);
    let trace = Arc::new(Mutex::new(vec![]));
    let mut req = Request::new(text.clone()).data(World { full, trace: trace.clone() });
    if let Some(n) = &opname {
        req = req.operation_name(n.clone());
    }
    let resp = vcore::det::block_on(k.schema.execute(req));
    let rendered = format!("{}{}  world={}", text, opname.as_ref().map(|n| format!("  operationName={}", n)).unwrap_or_default(), if full { "full" } else { "sparse" });
    if !resp.errors.is_empty() {
        return Case::fail(rendered, format!("harness: generated document was rejected: {:?}", resp.errors.iter().map(|e| &e.message).collect::<Vec<_>>()));
    }
    let actual = Pol { public: resp.cache_control.public, max_age: resp.cache_control.max_age };
    let trace = trace.lock().unwrap().clone();
    let mut contrib: Vec<(&str, &str)> = trace.iter().map(|t| (t.ty, t.field)).collect();
    contrib.sort();
    contrib.dedup();
    let mut req_all = vec![];
    let mut req_obj_paths = vec![];
    for t in &trace {
        let (tp, fp) = declared(t.ty, t.field);
        req_all.extend([tp, fp]);
        if !t.abs {
            req_obj_paths.extend([tp, fp]);
        }
    }
    let required = combine(&req_all);
    let only_via_abstract = required != combine(&req_obj_paths);
    let abstract_doc = uses_abstract(d);
    let rendered = format!(
        "{}  data-from={}  required={} actual={}",
        rendered,
        contrib.iter().map(|(t, f)| format!("{}.{}", t, f)).collect::<Vec<_>>().join(","),
        required.show(),
        actual.show()
    );
    let base = |c: Case| {
        c.nontrivial(only_via_abstract || (exact && required != NONE))
            .class_if(abstract_doc, "through-interface-or-union")
            .class_if(only_via_abstract, "restrictive-hint-only-behind-abstract-field")
            .class_if(!required.public, "required-private")
            .class_if(required.max_age == -1, "required-no-cache")
            .class_if(required.max_age > 0, "required-max-age")
            .class_if(required == NONE, "required-none")
            .class_if(exact, "object-only")
            .class_if(d.ops.len() > 1, "two-operations")
            .class_if(!d.frags.is_empty(), "named-fragments")
    };
    if !safe(actual, &req_all) {
        // is this exactly what the open findings predict? (smallest set of findings first)
        for (f1, f2) in [(true, false), (false, true), (true, true)] {
            if (f1 && !open[0]) || (f2 && !open[1]) {
                continue;
            }
            if actual == predict(d, f1, f2) {
                let ids: Vec<String> = [(f1, "C20-F1"), (f2, "C20-F2")].iter().filter(|x| x.0).map(|x| x.1.to_string()).collect();
                return base(Case::known(rendered, ids)).class_if(f1, "known-C20-F1").class_if(f2, "known-C20-F2");
            }
        }
        return base(Case::fail(rendered, format!("response policy {} is looser than the data it contains (required at least {})", actual.show(), required.show())));
    }
    if exact && actual != required {
        return base(Case::fail(rendered, format!("object-only selection: response policy {} differs from the combination {}", actual.show(), required.show())));
    }
    base(Case::pass(rendered))
}

// ---------------------------------------------------------------------------------------------------------------
// combination laws

fn cc(p: Pol) -> CacheControl {
    CacheControl { public: p.public, max_age: p.max_age }
}
fn batch(ps: &[Pol]) -> Pol {
    let b = BatchResponse::Batch(ps.iter().map(|p| Response::new(async_graphql::Value::Null).cache_control(cc(*p))).collect());
    let c = b.cache_control();
    Pol { public: c.public, max_age: c.max_age }
}

fn law_case(ps: &[Pol]) -> Case {
    let text = format!("combine[{}]", ps.iter().map(|p| p.show()).collect::<Vec<_>>().join(", "));
    let whole = batch(ps);
    let nt = ps.iter().any(|p| *p != ps[0]);
    if !safe(whole, ps) {
        return Case::fail(text, format!("combined policy {} is looser than a member", whole.show()));
    }
    // every permutation
    let n = ps.len();
    let mut order: Vec<usize> = (0..n).collect();
    let mut perms = vec![];
    permute(&mut order, 0, &mut perms);
    for p in &perms {
        let v: Vec<Pol> = p.iter().map(|i| ps[*i]).collect();
        let r = batch(&v);
        if r != whole {
            return Case::fail(text, format!("order dependence: [{}] -> {} but original order -> {}", v.iter().map(|p| p.show()).collect::<Vec<_>>().join(", "), r.show(), whole.show()));
        }
        // every regrouping into a prefix combined first and fed back as one response, and likewise a suffix
        for cut in 1..n {
            let left = batch(&v[..cut]);
            let right = batch(&v[cut..]);
            let mut a = vec![left];
            a.extend_from_slice(&v[cut..]);
            let mut b = v[..cut].to_vec();
            b.push(right);
            for (how, g) in [("prefix", batch(&a)), ("suffix", batch(&b)), ("both", batch(&[left, right]))] {
                if g != whole {
                    return Case::fail(text, format!("grouping dependence ({} of [{}] cut at {}): {} vs {}", how, v.iter().map(|p| p.show()).collect::<Vec<_>>().join(", "), cut, g.show(), whole.show()));
                }
            }
        }
    }
    if n == 1 && BatchResponse::Single(Response::new(async_graphql::Value::Null).cache_control(cc(ps[0]))).cache_control() != cc(ps[0]) {
        return Case::fail(text, "single response: cache_control() differs from the response's policy");
    }
    Case::pass(text).nontrivial(nt).class(format!("law-{}", n))
}
fn permute(a: &mut Vec<usize>, k: usize, out: &mut Vec<Vec<usize>>) {
    if k == a.len() {
        out.push(a.clone());
        return;
    }
    for i in k..a.len() {
        a.swap(k, i);
        permute(a, k + 1, out);
        a.swap(k, i);
    }
}

pub fn run(ctx: &mut Ctx) {
    ctx.rule = "type-directed random documents over schema K (18 object types with type/field hints, 2 interfaces, 2 unions; aliases, inline \
                fragments with/without condition, named fragments, optional second operation), executed against a random data world; \
                required policy = combination of the declared policies of the (object type, field) pairs whose resolver produced data; \
                non-trivial = the required policy is tighter than what object-only paths alone require (a restrictive hint is reached only \
                through an interface/union field), or, in the object-only stream, any hint applies; laws: all 1-, 2-, 3-tuples (4-tuples in \
                thorough) over {public,private}x{0,1,5,60,-1}; distinct by rendered case"
        .into();
    ctx.assume("an object contributes data iff at least one of its non-__typename fields is in the response; objects that only show __typename or {} are don't-care");
    ctx.assume("a field contributes data whenever its resolver ran (null and [] are data of the field, not of the target type)");
    ctx.assume("exactness is checked for single-operation documents without @skip/@include over worlds without nulls / empty lists, where 'selected' and 'contains data' coincide");
    ctx.assume("max_age 0 means 'no hint' (the statement speaks of positive max-ages); hints with both no_cache and max_age are not used");
    ctx.assume("interface fields cannot declare a cache hint; the policy that counts is the one declared on the concrete object's field");
    let k = K { schema: Schema::build(Query, EmptyMutation, EmptySubscription).finish() };
    let open = [ctx.open("C20-F1"), ctx.open("C20-F2")];
    ctx.note("schema_K", json!(TYPES.iter().map(|t| format!("{} type={} id={} next={}", t.name, t.pol.show(), t.id_pol.show(), t.next)).collect::<Vec<_>>()));

    // (c) laws, bounded-exhaustive
    let t0 = Instant::now();
    let dom: Vec<Pol> = [true, false].iter().flat_map(|p| [0, 1, 5, 60, -1].iter().map(move |m| Pol { public: *p, max_age: *m })).collect();
    let arity = ctx.tier.pick(3, 4);
    let mut count = 0u64;
    let mut complete = true;
    'laws: for n in 1..=arity {
        for code in 0..dom.len().pow(n as u32) {
            let ps: Vec<Pol> = (0..n).map(|pos| dom[code / dom.len().pow(pos as u32) % dom.len()]).collect();
            count += 1;
            if ctx.check_case("laws", law_case(&ps), json!({"policies": ps.iter().map(|p| p.show()).collect::<Vec<_>>()})) {
                // first broken law is reported; the document streams still run
                complete = false;
                break 'laws;
            }
        }
    }
    ctx.enumerated("laws", count, complete, t0);
    ctx.exhaustive = Some(complete);

    // explicit witnesses
    let field = |f: &'static str, sub: Option<(Ty, Vec<Sel>)>| Sel::Field { alias: None, f, seed: None, sub };
    let single = |sels: Vec<Sel>| Doc { ops: vec![(None, sels)], frags: vec![] };
    let t09 = Ty::Obj(idx("T09"));
    let t13 = Ty::Obj(idx("T13"));
    let witnesses: Vec<(&str, Doc)> = vec![
        // typed inline fragments make the static computation see the object type
        ("typed-fragment-behind-interface", single(vec![field("np", Some((Ty::Node, vec![Sel::Inline { on: Some(t09), sub: vec![field("id", None)] }])))])),
        ("typed-fragment-behind-union", single(vec![field("ip", Some((Ty::Item, vec![Sel::Inline { on: Some(t09), sub: vec![field("plain", None)] }])))])),
        // C20-F1 witnesses: private/no-cache object type read through the interface's own field; field-level hint likewise
        ("F1-type-policy-behind-interface", single(vec![field("np", Some((Ty::Node, vec![field("id", None)])))])),
        ("F1-type-policy-behind-union", single(vec![field("ip", Some((Ty::Item, vec![Sel::Inline { on: Some(Ty::Node), sub: vec![field("plain", None)] }])))])),
        ("F1-field-policy-behind-interface", single(vec![field("n13", Some((Ty::Named, vec![Sel::Inline { on: Some(t13), sub: vec![field("plain", None)] }, field("id", None)])))])),
        // C20-F2 witnesses: the same selections as the first two, written as named fragments
        ("F2-named-fragment-behind-union", Doc { ops: vec![(None, vec![field("ip", Some((Ty::Item, vec![Sel::Spread(0)])))])], frags: vec![Frag { on: t09, sub: vec![field("plain", None)] }] }),
        ("F2-named-fragment-behind-interface", Doc { ops: vec![(None, vec![field("n13", Some((Ty::Named, vec![Sel::Spread(0)])))])], frags: vec![Frag { on: t13, sub: vec![field("fnc", None)] }] }),
    ];
    for (name, d) in &witnesses {
        let c = doc_case(&k, open, d, None, true, false);
        ctx.check_case("witness", c, json!({"witness": name}));
    }

    let n = ctx.tier.pick(60_000, 1_500_000);
    ctx.floor("restrictive-hint-only-behind-abstract-field", 2000);
    ctx.floor("through-interface-or-union", 20_000);
    ctx.floor("object-only", 50_000);
    ctx.floor("required-private", 2000);
    ctx.floor("required-no-cache", 2000);
    ctx.floor("required-max-age", 1000);
    ctx.floor("required-none", 200);
    ctx.floor("two-operations", 300);
    ctx.floor("named-fragments", 1000);

    ctx.stream("object-only-exact", n, 160, |s| {
        let (d, op) = gen_doc(s, Cfg { abstract_types: false, iface_direct: false, frag_retype: false, w_spread: 2, max_depth: 3 }, false);
        doc_case(&k, open, &d, op, true, true)
    });
    // main search: the constructs of the open findings are switched off in the generator
    for (i, id) in ["C20-F1", "C20-F2"].iter().enumerate() {
        if open[i] {
            ctx.excluded(id);
        }
    }
    let main = Cfg { abstract_types: true, iface_direct: !open[0], frag_retype: !open[1], w_spread: 2, max_depth: 3 };
    ctx.stream("mixed-safety", n, 200, |s| {
        let full = s.chance(1, 3);
        let (d, op) = gen_doc(s, main, true);
        doc_case(&k, open, &d, op, full, false)
    });
    // probes: one construct each switched on again (fields selected directly on interface-typed selection sets;
    // named fragments whose type condition differs from the static type they are spread in)
    ctx.stream("f1-probe", n / 10, 200, |s| {
        let full = s.chance(1, 3);
        let (d, op) = gen_doc(s, Cfg { iface_direct: true, max_depth: 2, ..main }, true);
        doc_case(&k, open, &d, op, full, false).class("f1-probe")
    });
    ctx.stream("f2-probe", n / 10, 200, |s| {
        let full = s.chance(1, 3);
        let (d, op) = gen_doc(s, Cfg { frag_retype: true, w_spread: 8, max_depth: 2, ..main }, true);
        doc_case(&k, open, &d, op, full, false).class("f2-probe")
    });
}
