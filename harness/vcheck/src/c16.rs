//! C16 — serde values convert to GraphQL values and back without loss.
//!
//! A fixed family of serde types (one per data-model shape, generic so that they compose) is instantiated
//! into concrete top-level types of nesting depth 4 plus one `Box`-recursive type; values are generated
//! from the choice source and `from_value::<T>(to_value(&v)?)? == v` is demanded.
use async_graphql_value::{from_value, to_value, ConstValue};
use bytes::Bytes;
use serde::de::DeserializeOwned;
use serde::{Deserialize, Serialize};
use std::collections::{BTreeMap, HashMap};
use std::fmt::Debug;
use std::hash::BuildHasherDefault;
use std::sync::atomic::{AtomicBool, Ordering};
use vcore::gens::*;
use vcore::{Case, Ctx, Src};

/// HashMap with a fixed hasher: the rendering of a case must not depend on per-process hash keys.
type HMap<T> = HashMap<String, T, BuildHasherDefault<std::collections::hash_map::DefaultHasher>>;

const F1: &str = "C16-F1";
/// generator switch: may `En::E()` (a tuple variant without fields) be generated?
static ALLOW_EMPTY_TUPLE_VARIANT: AtomicBool = AtomicBool::new(false);
/// is finding C16-F1 listed as open (then its exact deviation is attributed, not reported)?
static F1_OPEN: AtomicBool = AtomicBool::new(false);
/// C16-F1: `{E: []}` reaches the tuple-variant visitor as a unit value
const F1_MESSAGE: &str = "invalid type: unit value, expected tuple variant En::E";

/// Features of a generated value (for the non-triviality rule and the class histogram).
#[derive(Default)]
struct Feat {
    /// deepest nesting level at which an enum variant with payload or a map occurs
    payload_or_map_depth: Option<usize>,
    max_depth: usize,
    unit_variant: bool,
    newtype_variant: bool,
    tuple_variant: bool,
    struct_variant: bool,
    map: bool,
    some: bool,
    none: bool,
    bytes: bool,
    float: bool,
    neg_zero: bool,
    big_u64: bool,
    empty_seq: bool,
    unit: bool,
    empty_tuple_variant: bool,
}
impl Feat {
    fn at(&mut self, d: usize) {
        self.max_depth = self.max_depth.max(d);
    }
    fn payload(&mut self, d: usize) {
        self.payload_or_map_depth = Some(self.payload_or_map_depth.map_or(d, |x| x.max(d)));
    }
}

/// Generation and feature walk. `size` bounds collection lengths and recursion (it is halved on the way down).
trait Arb: Sized {
    fn arb(s: &mut dyn Src, size: usize) -> Self;
    fn feat(&self, d: usize, f: &mut Feat);
}

macro_rules! arb_int {
    ($($t:ty)*) => {$(
        impl Arb for $t {
            fn arb(s: &mut dyn Src, _size: usize) -> Self {
                match s.choose(4) {
                    0 => s.range(0, 3) as $t,
                    1 => *pick(s, &[<$t>::MIN, <$t>::MAX, <$t>::MAX - 1, (<$t>::MAX / 2) + 1, 1 as $t]),
                    2 => gen_i64(s) as $t,
                    _ => s.u64() as $t,
                }
            }
            fn feat(&self, d: usize, f: &mut Feat) {
                f.at(d);
                if (*self as i128) > i64::MAX as i128 {
                    f.big_u64 = true;
                }
            }
        }
    )*};
}
arb_int! { i8 i16 i32 i64 isize u8 u16 u32 u64 usize }

impl Arb for bool {
    fn arb(s: &mut dyn Src, _size: usize) -> Self {
        s.bool()
    }
    fn feat(&self, d: usize, f: &mut Feat) {
        f.at(d);
    }
}
impl Arb for String {
    fn arb(s: &mut dyn Src, _size: usize) -> Self {
        gen_string(s, 6)
    }
    fn feat(&self, d: usize, f: &mut Feat) {
        f.at(d);
    }
}
impl Arb for () {
    fn arb(_s: &mut dyn Src, _size: usize) -> Self {}
    fn feat(&self, d: usize, f: &mut Feat) {
        f.at(d);
        f.unit = true;
    }
}
impl Arb for Bytes {
    fn arb(s: &mut dyn Src, _size: usize) -> Self {
        let n = s.choose(6);
        Bytes::from((0..n).map(|_| *pick(s, &[0u8, 1, 0x7f, 0x80, 0xff, b'a', b'"', b'\\'])).collect::<Vec<u8>>())
    }
    fn feat(&self, d: usize, f: &mut Feat) {
        f.at(d);
        f.bytes = true;
    }
}

/// f64 / f32 compared by bit pattern (so that a lost sign of zero or a changed last bit is seen).
#[derive(Serialize, Deserialize, Debug, Clone, Copy)]
struct F64(f64);
impl PartialEq for F64 {
    fn eq(&self, o: &Self) -> bool {
        self.0.to_bits() == o.0.to_bits()
    }
}
#[derive(Serialize, Deserialize, Debug, Clone, Copy)]
#[serde(transparent)]
struct F32(f32);
impl PartialEq for F32 {
    fn eq(&self, o: &Self) -> bool {
        self.0.to_bits() == o.0.to_bits()
    }
}
impl Arb for F64 {
    fn arb(s: &mut dyn Src, _size: usize) -> Self {
        F64(gen_f64_finite(s))
    }
    fn feat(&self, d: usize, f: &mut Feat) {
        f.at(d);
        f.float = true;
        f.neg_zero |= self.0 == 0.0 && self.0.is_sign_negative();
    }
}
impl Arb for F32 {
    fn arb(s: &mut dyn Src, _size: usize) -> Self {
        F32(match s.choose(5) {
            0 => 0.0,
            1 => -0.0,
            2 => s.range(-1000, 1000) as f32 / 8.0,
            3 => *pick(s, &[f32::MAX, f32::MIN, f32::MIN_POSITIVE, f32::EPSILON, 1e-45, 0.1, 16777217.0, 3.4028235e38]),
            _ => loop {
                let v = f32::from_bits(s.raw());
                if v.is_finite() {
                    break v;
                }
            },
        })
    }
    fn feat(&self, d: usize, f: &mut Feat) {
        f.at(d);
        f.float = true;
        f.neg_zero |= self.0 == 0.0 && self.0.is_sign_negative();
    }
}

/// `T` must never serialise to null (no `()`, unit struct or `Option` directly below an `Option`): the
/// concrete instantiations below respect this.
impl<T: Arb> Arb for Option<T> {
    fn arb(s: &mut dyn Src, size: usize) -> Self {
        if s.chance(2, 3) {
            Some(T::arb(s, size))
        } else {
            None
        }
    }
    fn feat(&self, d: usize, f: &mut Feat) {
        f.at(d);
        match self {
            Some(x) => {
                f.some = true;
                x.feat(d, f)
            }
            None => f.none = true,
        }
    }
}
impl<T: Arb> Arb for Box<T> {
    fn arb(s: &mut dyn Src, size: usize) -> Self {
        Box::new(T::arb(s, size))
    }
    fn feat(&self, d: usize, f: &mut Feat) {
        (**self).feat(d, f)
    }
}
impl<T: Arb> Arb for Vec<T> {
    fn arb(s: &mut dyn Src, size: usize) -> Self {
        let n = s.choose(size.min(3) + 1);
        (0..n).map(|_| T::arb(s, size / 2)).collect()
    }
    fn feat(&self, d: usize, f: &mut Feat) {
        f.at(d);
        f.empty_seq |= self.is_empty();
        for x in self {
            x.feat(d + 1, f);
        }
    }
}
impl<T: Arb> Arb for [T; 2] {
    fn arb(s: &mut dyn Src, size: usize) -> Self {
        [T::arb(s, size / 2), T::arb(s, size / 2)]
    }
    fn feat(&self, d: usize, f: &mut Feat) {
        f.at(d);
        for x in self {
            x.feat(d + 1, f);
        }
    }
}
fn arb_key(s: &mut dyn Src) -> String {
    // map keys are arbitrary strings (the statement only asks for *string* keys), mostly short names
    if s.chance(1, 4) {
        gen_string(s, 4)
    } else {
        gen_name(s, 4)
    }
}
impl<T: Arb> Arb for BTreeMap<String, T> {
    fn arb(s: &mut dyn Src, size: usize) -> Self {
        let n = s.choose(size.min(3) + 1);
        (0..n).map(|_| (arb_key(s), T::arb(s, size / 2))).collect()
    }
    fn feat(&self, d: usize, f: &mut Feat) {
        f.at(d);
        f.map = true;
        f.payload(d);
        for x in self.values() {
            x.feat(d + 1, f);
        }
    }
}
impl<T: Arb> Arb for HMap<T> {
    fn arb(s: &mut dyn Src, size: usize) -> Self {
        let n = s.choose(size.min(3) + 1);
        (0..n).map(|_| (arb_key(s), T::arb(s, size / 2))).collect()
    }
    fn feat(&self, d: usize, f: &mut Feat) {
        f.at(d);
        f.map = true;
        f.payload(d);
        for x in self.values() {
            x.feat(d + 1, f);
        }
    }
}
impl<A: Arb> Arb for (A,) {
    fn arb(s: &mut dyn Src, size: usize) -> Self {
        (A::arb(s, size),)
    }
    fn feat(&self, d: usize, f: &mut Feat) {
        f.at(d);
        self.0.feat(d + 1, f);
    }
}
impl<A: Arb, B: Arb> Arb for (A, B) {
    fn arb(s: &mut dyn Src, size: usize) -> Self {
        (A::arb(s, size), B::arb(s, size))
    }
    fn feat(&self, d: usize, f: &mut Feat) {
        f.at(d);
        self.0.feat(d + 1, f);
        self.1.feat(d + 1, f);
    }
}
impl<A: Arb, B: Arb, C: Arb> Arb for (A, B, C) {
    fn arb(s: &mut dyn Src, size: usize) -> Self {
        (A::arb(s, size), B::arb(s, size), C::arb(s, size))
    }
    fn feat(&self, d: usize, f: &mut Feat) {
        f.at(d);
        self.0.feat(d + 1, f);
        self.1.feat(d + 1, f);
        self.2.feat(d + 1, f);
    }
}

impl<A: Arb, B: Arb, C: Arb, D: Arb> Arb for (A, B, C, D) {
    fn arb(s: &mut dyn Src, size: usize) -> Self {
        (A::arb(s, size), B::arb(s, size), C::arb(s, size), D::arb(s, size))
    }
    fn feat(&self, d: usize, f: &mut Feat) {
        f.at(d);
        self.0.feat(d + 1, f);
        self.1.feat(d + 1, f);
        self.2.feat(d + 1, f);
        self.3.feat(d + 1, f);
    }
}

// ---- the derived family: one type per data-model shape -------------------------------------------------

/// unit struct
#[derive(Serialize, Deserialize, PartialEq, Debug)]
struct UnitS;
impl Arb for UnitS {
    fn arb(_s: &mut dyn Src, _size: usize) -> Self {
        UnitS
    }
    fn feat(&self, d: usize, f: &mut Feat) {
        f.at(d);
        f.unit = true;
    }
}
/// newtype struct
#[derive(Serialize, Deserialize, PartialEq, Debug)]
struct NewT<T>(T);
impl<T: Arb> Arb for NewT<T> {
    fn arb(s: &mut dyn Src, size: usize) -> Self {
        NewT(T::arb(s, size))
    }
    fn feat(&self, d: usize, f: &mut Feat) {
        self.0.feat(d, f)
    }
}
/// tuple struct
#[derive(Serialize, Deserialize, PartialEq, Debug)]
struct TupS<A, B>(A, B, u8);
impl<A: Arb, B: Arb> Arb for TupS<A, B> {
    fn arb(s: &mut dyn Src, size: usize) -> Self {
        TupS(A::arb(s, size), B::arb(s, size), u8::arb(s, size))
    }
    fn feat(&self, d: usize, f: &mut Feat) {
        f.at(d);
        self.0.feat(d + 1, f);
        self.1.feat(d + 1, f);
    }
}
/// struct with named fields, one of them a keyword-like / non-identifier-looking name
#[derive(Serialize, Deserialize, PartialEq, Debug)]
struct Rec<A, B> {
    a: A,
    #[serde(rename = "type")]
    b: B,
    flag: bool,
}
impl<A: Arb, B: Arb> Arb for Rec<A, B> {
    fn arb(s: &mut dyn Src, size: usize) -> Self {
        Rec { a: A::arb(s, size), b: B::arb(s, size), flag: s.bool() }
    }
    fn feat(&self, d: usize, f: &mut Feat) {
        f.at(d);
        self.a.feat(d + 1, f);
        self.b.feat(d + 1, f);
    }
}
/// all four variant forms
#[derive(Serialize, Deserialize, PartialEq, Debug)]
enum En<A, B> {
    U,
    N(A),
    T(A, B),
    S { x: A, y: B },
    /// second unit variant, with a name that is not a GraphQL name
    #[serde(rename = "other-unit")]
    U2,
    /// struct variant without fields
    S0 {},
    /// tuple variant without fields (generated only where the run allows it: finding C16-F1)
    E(),
}
impl<A: Arb, B: Arb> Arb for En<A, B> {
    fn arb(s: &mut dyn Src, size: usize) -> Self {
        let empty_tuple = if ALLOW_EMPTY_TUPLE_VARIANT.load(Ordering::Relaxed) { 2 } else { 0 };
        match s.weighted(&[2, 4, 4, 4, 1, 1, empty_tuple]) {
            0 => En::U,
            1 => En::N(A::arb(s, size)),
            2 => En::T(A::arb(s, size), B::arb(s, size)),
            3 => En::S { x: A::arb(s, size), y: B::arb(s, size) },
            4 => En::U2,
            5 => En::S0 {},
            _ => En::E(),
        }
    }
    fn feat(&self, d: usize, f: &mut Feat) {
        f.at(d);
        match self {
            En::U | En::U2 => f.unit_variant = true,
            En::S0 {} => f.struct_variant = true,
            En::E() => f.empty_tuple_variant = true,
            En::N(a) => {
                f.newtype_variant = true;
                f.payload(d);
                a.feat(d + 1, f);
            }
            En::T(a, b) => {
                f.tuple_variant = true;
                f.payload(d);
                a.feat(d + 1, f);
                b.feat(d + 1, f);
            }
            En::S { x, y } => {
                f.struct_variant = true;
                f.payload(d);
                x.feat(d + 1, f);
                y.feat(d + 1, f);
            }
        }
    }
}
/// every integer width up to 64 bits
#[derive(Serialize, Deserialize, PartialEq, Debug)]
struct Ints {
    a: i8,
    b: i16,
    c: i32,
    d: i64,
    e: u8,
    f: u16,
    g: u32,
    h: u64,
    i: isize,
    j: usize,
}
impl Arb for Ints {
    fn arb(s: &mut dyn Src, z: usize) -> Self {
        Ints {
            a: Arb::arb(s, z),
            b: Arb::arb(s, z),
            c: Arb::arb(s, z),
            d: Arb::arb(s, z),
            e: Arb::arb(s, z),
            f: Arb::arb(s, z),
            g: Arb::arb(s, z),
            h: Arb::arb(s, z),
            i: Arb::arb(s, z),
            j: Arb::arb(s, z),
        }
    }
    fn feat(&self, d: usize, f: &mut Feat) {
        f.at(d);
        self.h.feat(d + 1, f);
        self.j.feat(d + 1, f);
    }
}
/// floats, bool, string, bytes, unit and unit struct as fields
#[derive(Serialize, Deserialize, PartialEq, Debug)]
struct Prims {
    x: F64,
    y: F32,
    ok: bool,
    s: String,
    raw: Bytes,
    unit: (),
    us: UnitS,
}
impl Arb for Prims {
    fn arb(s: &mut dyn Src, z: usize) -> Self {
        Prims { x: Arb::arb(s, z), y: Arb::arb(s, z), ok: s.bool(), s: Arb::arb(s, z), raw: Arb::arb(s, z), unit: (), us: UnitS }
    }
    fn feat(&self, d: usize, f: &mut Feat) {
        f.at(d);
        self.x.feat(d + 1, f);
        self.y.feat(d + 1, f);
        self.raw.feat(d + 1, f);
        self.us.feat(d + 1, f);
    }
}
/// a scalar of any kind as a newtype variant payload (numbers of each sign class side by side)
#[derive(Serialize, Deserialize, PartialEq, Debug)]
enum Scalar {
    Nothing,
    I(i64),
    U(u64),
    F(F64),
    G(F32),
    B(bool),
    S(String),
    Raw(Bytes),
    Small(i8, u8),
}
impl Arb for Scalar {
    fn arb(s: &mut dyn Src, z: usize) -> Self {
        match s.choose(9) {
            0 => Scalar::Nothing,
            1 => Scalar::I(Arb::arb(s, z)),
            2 => Scalar::U(Arb::arb(s, z)),
            3 => Scalar::F(Arb::arb(s, z)),
            4 => Scalar::G(Arb::arb(s, z)),
            5 => Scalar::B(s.bool()),
            6 => Scalar::S(Arb::arb(s, z)),
            7 => Scalar::Raw(Arb::arb(s, z)),
            _ => Scalar::Small(Arb::arb(s, z), Arb::arb(s, z)),
        }
    }
    fn feat(&self, d: usize, f: &mut Feat) {
        f.at(d);
        match self {
            Scalar::Nothing => f.unit_variant = true,
            Scalar::Small(..) => {
                f.tuple_variant = true;
                f.payload(d);
                f.at(d + 1);
            }
            other => {
                f.newtype_variant = true;
                f.payload(d);
                match other {
                    Scalar::U(u) => u.feat(d + 1, f),
                    Scalar::F(x) => x.feat(d + 1, f),
                    Scalar::G(x) => x.feat(d + 1, f),
                    Scalar::Raw(x) => x.feat(d + 1, f),
                    _ => f.at(d + 1),
                }
            }
        }
    }
}
/// `Box`-recursive type: every shape may contain every other, depth bounded by the generator
#[derive(Serialize, Deserialize, PartialEq, Debug)]
enum Tree {
    Leaf,
    Val(Scalar),
    Pair(Box<Tree>, Box<Tree>),
    Node { left: Option<Box<Tree>>, items: Vec<Tree>, label: String },
    Map(BTreeMap<String, Tree>),
    Hash(HMap<Tree>),
    Opt(Option<Box<Rec<Tree, Scalar>>>),
    Tup(Box<(Tree, Scalar, NewT<Tree>)>),
    Ts(Box<TupS<Tree, Option<Scalar>>>),
}
impl Arb for Tree {
    fn arb(s: &mut dyn Src, z: usize) -> Self {
        if z == 0 {
            return if s.bool() { Tree::Val(Scalar::arb(s, 0)) } else { Tree::Leaf };
        }
        let z1 = z - 1;
        match s.weighted(&[1, 3, 3, 3, 3, 2, 2, 2, 2]) {
            0 => Tree::Leaf,
            1 => Tree::Val(Scalar::arb(s, z1)),
            2 => Tree::Pair(Box::new(Tree::arb(s, z1)), Box::new(Tree::arb(s, z1))),
            3 => Tree::Node {
                left: if s.bool() { Some(Box::new(Tree::arb(s, z1))) } else { None },
                items: (0..s.choose(3)).map(|_| Tree::arb(s, z1)).collect(),
                label: gen_string(s, 4),
            },
            4 => Tree::Map((0..s.choose(3)).map(|_| (arb_key(s), Tree::arb(s, z1))).collect()),
            5 => Tree::Hash((0..s.choose(3)).map(|_| (arb_key(s), Tree::arb(s, z1))).collect()),
            6 => Tree::Opt(if s.chance(3, 4) {
                Some(Box::new(Rec { a: Tree::arb(s, z1), b: Scalar::arb(s, z1), flag: s.bool() }))
            } else {
                None
            }),
            7 => Tree::Tup(Box::new((Tree::arb(s, z1), Scalar::arb(s, z1), NewT(Tree::arb(s, z1))))),
            _ => Tree::Ts(Box::new(TupS(Tree::arb(s, z1), Arb::arb(s, z1), Arb::arb(s, z1)))),
        }
    }
    fn feat(&self, d: usize, f: &mut Feat) {
        f.at(d);
        match self {
            Tree::Leaf => f.unit_variant = true,
            Tree::Val(x) => {
                f.newtype_variant = true;
                f.payload(d);
                x.feat(d + 1, f)
            }
            Tree::Pair(a, b) => {
                f.tuple_variant = true;
                f.payload(d);
                a.feat(d + 1, f);
                b.feat(d + 1, f);
            }
            Tree::Node { left, items, .. } => {
                f.struct_variant = true;
                f.payload(d);
                left.feat(d + 1, f);
                items.feat(d + 1, f);
            }
            Tree::Map(m) => {
                f.newtype_variant = true;
                f.payload(d);
                m.feat(d + 1, f)
            }
            Tree::Hash(m) => {
                f.newtype_variant = true;
                f.payload(d);
                m.feat(d + 1, f)
            }
            Tree::Opt(o) => {
                f.newtype_variant = true;
                f.payload(d);
                o.feat(d + 1, f)
            }
            Tree::Tup(t) => {
                f.newtype_variant = true;
                f.payload(d);
                t.feat(d + 1, f)
            }
            Tree::Ts(t) => {
                f.newtype_variant = true;
                f.payload(d);
                t.feat(d + 1, f)
            }
        }
    }
}

// ---- non-default serde representations and std types (stream `attrs`) -------------------------------------
// Values are generated so that the representation itself is unambiguous (an untagged integer is `U` only
// above i64::MAX, flattened extra keys cannot collide with field names): what is left is the converter's job.

#[derive(Serialize, Deserialize, PartialEq, Eq, PartialOrd, Ord, Debug, Clone, Copy)]
enum KeyE {
    Alpha,
    #[serde(rename = "be ta")]
    Beta,
    Gamma,
}
impl Arb for KeyE {
    fn arb(s: &mut dyn Src, _z: usize) -> Self {
        *pick(s, &[KeyE::Alpha, KeyE::Beta, KeyE::Gamma])
    }
    fn feat(&self, d: usize, f: &mut Feat) {
        f.at(d);
        f.unit_variant = true;
    }
}
#[derive(Serialize, Deserialize, PartialEq, Debug)]
struct Leaf {
    q: u64,
    x: F64,
    #[serde(skip_serializing_if = "Option::is_none", default)]
    o: Option<String>,
    #[serde(default)]
    d: i32,
}
impl Arb for Leaf {
    fn arb(s: &mut dyn Src, z: usize) -> Self {
        Leaf { q: Arb::arb(s, z), x: Arb::arb(s, z), o: Arb::arb(s, z), d: Arb::arb(s, z) }
    }
    fn feat(&self, d: usize, f: &mut Feat) {
        f.at(d);
        self.q.feat(d + 1, f);
        self.x.feat(d + 1, f);
        self.o.feat(d + 1, f);
    }
}
#[derive(Serialize, Deserialize, PartialEq, Debug)]
#[serde(tag = "kind")]
enum Internal {
    Empty,
    Point { x: i32, y: Option<String> },
    Wrapped(Leaf),
}
#[derive(Serialize, Deserialize, PartialEq, Debug)]
#[serde(tag = "t", content = "c")]
enum Adjacent {
    Unit,
    New(Vec<i8>),
    Tup(i64, String),
    Rec { leaf: Leaf },
}
#[derive(Serialize, Deserialize, PartialEq, Debug)]
#[serde(untagged)]
enum Untagged {
    I(i64),
    U(u64),
    F(F64),
    S(String),
    L(Vec<Untagged>),
    R { flag: bool },
    M(BTreeMap<String, Untagged>),
}
fn arb_untagged(s: &mut dyn Src, z: usize) -> Untagged {
    match s.choose(if z == 0 { 5 } else { 7 }) {
        0 => Untagged::I(Arb::arb(s, z)),
        1 => Untagged::U(i64::MAX as u64 + 1 + (s.u64() >> 1)),
        2 => Untagged::F(Arb::arb(s, z)),
        3 => Untagged::S(Arb::arb(s, z)),
        4 => Untagged::R { flag: s.bool() },
        5 => Untagged::L((0..s.choose(3)).map(|_| arb_untagged(s, z - 1)).collect()),
        // a map that does not look like `R`
        _ => Untagged::M((0..s.choose(3)).map(|i| (format!("k{}{}", i, gen_name(s, 2)), arb_untagged(s, z - 1))).collect()),
    }
}
#[derive(Serialize, Deserialize, PartialEq, Debug)]
struct Flat {
    id: u8,
    #[serde(flatten)]
    leaf: Leaf,
    #[serde(flatten)]
    rest: BTreeMap<String, i64>,
}
/// one value of every representation, plus std types with their own Serialize impls
#[derive(Serialize, Deserialize, PartialEq, Debug)]
struct Attrs {
    internal: Vec<Internal>,
    adjacent: Vec<Adjacent>,
    untagged: Untagged,
    flat: Flat,
    by_enum_key: BTreeMap<KeyE, Option<Adjacent>>,
    result: Result<Leaf, String>,
    bound: std::ops::Bound<i16>,
    span: std::ops::Range<u32>,
    elapsed: std::time::Duration,
    set: std::collections::BTreeSet<String>,
}
fn arb_internal(s: &mut dyn Src, z: usize) -> Internal {
    match s.choose(3) {
        0 => Internal::Empty,
        1 => Internal::Point { x: Arb::arb(s, z), y: Arb::arb(s, z) },
        _ => Internal::Wrapped(Arb::arb(s, z)),
    }
}
fn arb_adjacent(s: &mut dyn Src, z: usize) -> Adjacent {
    match s.choose(4) {
        0 => Adjacent::Unit,
        1 => Adjacent::New(Arb::arb(s, 3)),
        2 => Adjacent::Tup(Arb::arb(s, z), Arb::arb(s, z)),
        _ => Adjacent::Rec { leaf: Arb::arb(s, z) },
    }
}
impl Arb for Attrs {
    fn arb(s: &mut dyn Src, z: usize) -> Self {
        Attrs {
            internal: (0..s.choose(3)).map(|_| arb_internal(s, z)).collect(),
            adjacent: (0..s.choose(3)).map(|_| arb_adjacent(s, z)).collect(),
            untagged: arb_untagged(s, 2),
            flat: Flat {
                id: Arb::arb(s, z),
                leaf: Arb::arb(s, z),
                rest: (0..s.choose(3)).map(|i| (format!("extra_{}{}", i, gen_name(s, 2)), gen_i64(s))).collect(),
            },
            by_enum_key: (0..s.choose(3)).map(|_| (KeyE::arb(s, z), if s.bool() { Some(arb_adjacent(s, z)) } else { None })).collect(),
            result: if s.bool() { Ok(Arb::arb(s, z)) } else { Err(Arb::arb(s, z)) },
            bound: match s.choose(3) {
                0 => std::ops::Bound::Unbounded,
                1 => std::ops::Bound::Included(Arb::arb(s, z)),
                _ => std::ops::Bound::Excluded(Arb::arb(s, z)),
            },
            span: Arb::arb(s, z)..Arb::arb(s, z),
            elapsed: std::time::Duration::new(s.u64() >> s.choose(64), s.choose(1_000_000_000) as u32),
            set: (0..s.choose(3)).map(|_| gen_string(s, 3)).collect(),
        }
    }
    fn feat(&self, d: usize, f: &mut Feat) {
        f.at(d + 3);
        f.map = true;
        f.payload(d + 2);
        f.newtype_variant |= self.internal.iter().any(|x| matches!(x, Internal::Wrapped(_))) || matches!(self.result, Ok(_) | Err(_));
        f.struct_variant |= self.internal.iter().any(|x| matches!(x, Internal::Point { .. }));
        f.tuple_variant |= self.adjacent.iter().any(|x| matches!(x, Adjacent::Tup(..)));
        f.unit_variant |= self.internal.iter().any(|x| matches!(x, Internal::Empty));
        self.flat.leaf.feat(d + 1, f);
    }
}

// ---- concrete top-level instantiations (nesting depth 4 through the generic parameters) ----------------

type T1 = Rec<En<Vec<Option<Ints>>, BTreeMap<String, TupS<Prims, Scalar>>>, NewT<(F64, String, Option<Bytes>)>>;
type T2 = En<Rec<Option<Box<Scalar>>, HMap<En<u8, String>>>, Vec<(En<bool, F32>, Option<NewT<i64>>)>>;
type T3 = BTreeMap<String, En<NewT<Vec<Scalar>>, Option<Rec<u64, [i16; 2]>>>>;
type T4 = Vec<TupS<Option<En<String, Ints>>, HMap<Option<Vec<Scalar>>>>>;
type T5 = (Option<Prims>, En<(), UnitS>, (En<Bytes, Bytes>,), Vec<Vec<Option<En<i8, u64>>>>);
type T6 = Option<En<BTreeMap<String, Vec<En<F64, F32>>>, NewT<NewT<Option<String>>>>>;
type T7 = NewT<TupS<En<En<En<Scalar, u32>, bool>, Ints>, Box<Rec<Vec<String>, Option<HMap<isize>>>>>>;

fn round_trip<T: Arb + Serialize + DeserializeOwned + PartialEq + Debug>(s: &mut dyn Src, name: &str, size: usize) -> Case {
    let v = T::arb(s, size);
    let mut f = Feat::default();
    v.feat(0, &mut f);
    let text = format!("{} = {:?}", name, v);
    let gv: ConstValue = match to_value(&v) {
        Ok(g) => g,
        Err(e) => return Case::fail(text, format!("to_value failed: {}", e)),
    };
    let c = match from_value::<T>(gv.clone()) {
        Err(e) if f.empty_tuple_variant && F1_OPEN.load(Ordering::Relaxed) && e.to_string() == F1_MESSAGE => Case::known(text, vec![F1.into()]),
        Err(e) => Case::fail(text, format!("from_value failed: {} (graphql value: {})", e, gv)),
        Ok(back) => {
            if back == v {
                Case::pass(text)
            } else {
                Case::fail(text, format!("round trip returned {:?} (graphql value: {})", back, gv))
            }
        }
    };
    c.nontrivial(f.payload_or_map_depth.map_or(false, |d| d >= 2))
        .class(name.to_string())
        .class_if(f.max_depth >= 4, "depth>=4")
        .class_if(f.unit_variant, "unit-variant")
        .class_if(f.newtype_variant, "newtype-variant")
        .class_if(f.tuple_variant, "tuple-variant")
        .class_if(f.struct_variant, "struct-variant")
        .class_if(f.map, "map")
        .class_if(f.some, "option-some")
        .class_if(f.none, "option-none")
        .class_if(f.bytes, "bytes")
        .class_if(f.float, "float")
        .class_if(f.neg_zero, "negative-zero")
        .class_if(f.big_u64, "u64>i64::MAX")
        .class_if(f.empty_seq, "empty-seq")
        .class_if(f.unit, "unit")
        .class_if(f.empty_tuple_variant, "empty-tuple-variant")
}

pub fn run(ctx: &mut Ctx) {
    ctx.rule = "values of 7 fixed generic instantiations (nesting depth 4) and of one Box-recursive type, built from one serde type per \
                data-model shape (unit/newtype/tuple/named struct, unit/newtype/tuple/struct variants, Option, BTreeMap/HashMap<String,_>, Vec, \
                arrays and tuples, i8..i64/u8..u64/isize/usize, finite f32/f64, bool, String, bytes::Bytes, (), unit struct); \
                non-trivial = the value contains an enum variant with payload or a map at nesting depth >= 2; distinct by rendered value"
        .into();
    ctx.assume("floats are finite (non-finite floats serialise to null: outside the stated domain); floats are compared by bit pattern, so -0.0 must come back as -0.0");
    ctx.assume("char is outside the domain (value/src/serializer.rs rejects it with the message 'char is not supported.'); 128-bit integers are outside the domain");
    ctx.assume("Option<T> is only instantiated with T that never serialises to null (no Option<Option<_>>, Option<()>, Option<unit struct>): null collapses by construction");
    ctx.assume("map keys are Strings (arbitrary text, not only GraphQL names); HashMap uses a fixed hasher so that renderings are reproducible");
    ctx.assume("streams t1..t7 and tree use serde's default (externally tagged) representation with `rename` / `transparent` only; stream `attrs` adds internally tagged, adjacently tagged and untagged enums, `flatten`, `default` + `skip_serializing_if`, unit-variant enums as map keys (they serialise as strings) and std types (Result, Bound, Range, Duration, BTreeSet), with values chosen so that the representation itself is unambiguous");
    let f1_open = ctx.open(F1);
    F1_OPEN.store(f1_open, Ordering::Relaxed);
    // C16-F1 (tuple variant without fields): excluded from the main streams while open, probed separately
    ALLOW_EMPTY_TUPLE_VARIANT.store(!f1_open, Ordering::Relaxed);
    let n = ctx.tier.pick(120_000, 3_000_000);

    macro_rules! family_stream {
        ($name:expr, $t:ty, $label:expr, $cases:expr, $len:expr) => {
            ctx.stream($name, $cases, $len, |s| round_trip::<$t>(s, $label, 4));
            if ctx.violations() > 0 {
                return;
            }
        };
    }
    family_stream!("t1", T1, "T1", n, 160);
    family_stream!("t2", T2, "T2", n, 160);
    family_stream!("t3", T3, "T3", n, 160);
    family_stream!("t4", T4, "T4", n, 160);
    family_stream!("t5", T5, "T5", n, 160);
    family_stream!("t6", T6, "T6", n, 160);
    family_stream!("t7", T7, "T7", n, 160);
    family_stream!("tree", Tree, "Tree", n, 200);
    family_stream!("attrs", Attrs, "Attrs", n / 2, 200);
    if f1_open {
        ctx.excluded(F1);
    }

    // probe of C16-F1: the smallest witness, then the family with the construct enabled
    ALLOW_EMPTY_TUPLE_VARIANT.store(true, Ordering::Relaxed);
    {
        let mut s = vcore::src::VecSrc::new(&[u32::MAX]);
        let c = round_trip::<En<u8, u8>>(&mut s, "En<u8,u8>", 1);
        if ctx.check_case("probe-empty-tuple-variant", c, serde_json::json!({"witness": "En::<u8,u8>::E()"})) {
            return;
        }
    }
    ctx.stream("probe-empty-tuple-variant", n / 10, 160, |s| round_trip::<T2>(s, "T2", 4));

    ctx.floor("newtype-variant", 2_000);
    ctx.floor("tuple-variant", 2_000);
    ctx.floor("struct-variant", 2_000);
    ctx.floor("unit-variant", 2_000);
    ctx.floor("map", 2_000);
    ctx.floor("option-some", 2_000);
    ctx.floor("option-none", 2_000);
    ctx.floor("bytes", 1_000);
    ctx.floor("float", 1_000);
    ctx.floor("negative-zero", 100);
    ctx.floor("u64>i64::MAX", 500);
    ctx.floor("depth>=4", 1_000);
    ctx.floor("empty-tuple-variant", 500);
}
