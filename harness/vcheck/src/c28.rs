//! C28 — DataLoader delivers correct batched results under every interleaving.
//!
//! A world = one `DataLoader` over a gated, logging, scripted `Loader`, a spawner that queues into the
//! deterministic executor and a timer whose sleeps are gates. A schedule is a sequence of actions
//! {start request i, poll a woken task, fire a timer, complete a loader call, drop a waiting request}; the same
//! sequence always gives the same run. The oracle looks at the event log at quiescence.
use crate::c29::{ordered_map, AnyCache, Mode, QSpawner};
use async_graphql::dataloader::{DataLoader, Loader};
use async_graphql::runtime::Timer;
use futures_util::future::BoxFuture;
use futures_util::FutureExt;
use std::collections::{BTreeMap, BTreeSet, HashMap};
use std::sync::atomic::{AtomicUsize, Ordering};
use std::sync::{Arc, Mutex};
use std::time::{Duration, Instant};
use vcore::det::{Gates, Sim};
use vcore::drive::catch;
use vcore::{json, Case, Ctx, Src};

#[derive(Clone, Copy, Default, Debug, PartialEq)]
struct CallScript {
    fail: bool,
    /// bit k set: the loader leaves key k out of its answer
    omit: u8,
}

#[derive(Clone, Debug)]
struct Cfg {
    reqs: Vec<Vec<u8>>,
    max_batch: usize,
    cache: Mode,
    /// behaviour of the j-th `Loader::load` call (calls beyond the script succeed completely)
    script: Vec<CallScript>,
    max_drops: usize,
}

impl Cfg {
    fn text(&self) -> String {
        let sc: Vec<String> = self
            .script
            .iter()
            .enumerate()
            .filter(|(_, c)| **c != CallScript::default())
            .map(|(j, c)| if c.fail { format!("L{}:fail", j) } else { format!("L{}:omit{:?}", j, (0..8u8).filter(|k| c.omit & (1 << k) != 0).collect::<Vec<_>>()) })
            .collect();
        format!("load_many requests={:?} max_batch_size={} {} loader script=[{}]", self.reqs, self.max_batch, self.cache.name(), sc.join(","))
    }
}

fn value(call: usize, key: u8) -> u32 {
    1000 * (call as u32 + 1) + key as u32
}

struct Call {
    keys: Vec<u8>,
    start: u64,
    end: Option<u64>,
}

type LoadResult = Result<BTreeMap<u8, u32>, u32>;

/// event log with one global sequence counter (every poll is atomic, so sequence order is real order)
#[derive(Default)]
struct Log {
    seq: u64,
    calls: Vec<Call>,
    req_start: Vec<Option<u64>>,
    req_done: Vec<Option<u64>>,
    results: Vec<Option<LoadResult>>,
    trace: Vec<String>,
}
impl Log {
    fn tick(&mut self) -> u64 {
        self.seq += 1;
        self.seq
    }
}
type SharedLog = Arc<Mutex<Log>>;
fn locked(l: &SharedLog) -> std::sync::MutexGuard<'_, Log> {
    l.lock().unwrap_or_else(|e| e.into_inner())
}

struct GLoader {
    gates: Gates,
    log: SharedLog,
    script: Vec<CallScript>,
}
impl Loader<u8> for GLoader {
    type Value = u32;
    type Error = u32;
    async fn load(&self, keys: &[u8]) -> Result<HashMap<u8, u32>, u32> {
        let keys: Vec<u8> = keys.to_vec();
        let j = {
            let mut l = locked(&self.log);
            let start = l.tick();
            let mut sorted = keys.clone();
            sorted.sort();
            let j = l.calls.len();
            l.trace.push(format!("[L{} called with {:?}]", j, sorted));
            l.calls.push(Call { keys: keys.clone(), start, end: None });
            l.calls.len() - 1
        };
        self.gates.wait(format!("L{}", j)).await;
        {
            let mut l = locked(&self.log);
            let end = l.tick();
            l.calls[j].end = Some(end);
        }
        let sc = self.script.get(j).copied().unwrap_or_default();
        if sc.fail {
            return Err(j as u32);
        }
        let mut ks: Vec<u8> = keys.into_iter().filter(|k| sc.omit & (1 << k) == 0).collect();
        ks.sort();
        ks.dedup();
        let pairs: Vec<(u8, u32)> = ks.into_iter().map(|k| (k, value(j, k))).collect();
        Ok(ordered_map(&pairs))
    }
}

struct GTimer {
    gates: Gates,
    n: AtomicUsize,
}
impl Timer for GTimer {
    fn delay(&self, _d: Duration) -> BoxFuture<'static, ()> {
        let i = self.n.fetch_add(1, Ordering::SeqCst);
        self.gates.wait(format!("T{}", i)).boxed()
    }
}

#[derive(Clone, Copy, Debug, PartialEq)]
enum Act {
    Start(usize),
    Poll(usize),
    Fire(usize),
    Complete(usize),
    Drop(usize),
}

struct World {
    sim: Sim,
    gates: Gates,
    dl: Arc<DataLoader<GLoader, AnyCache>>,
    log: SharedLog,
    task_of: Vec<usize>,
    dropped: Vec<bool>,
    drops: usize,
}

impl World {
    fn new(cfg: &Cfg, log: SharedLog) -> World {
        let sim = Sim::new();
        let gates = Gates::new();
        {
            let mut l = locked(&log);
            l.req_start = vec![None; cfg.reqs.len()];
            l.req_done = vec![None; cfg.reqs.len()];
            l.results = vec![None; cfg.reqs.len()];
        }
        let loader = GLoader { gates: gates.clone(), log: log.clone(), script: cfg.script.clone() };
        let dl = DataLoader::with_cache(loader, QSpawner(sim.spawned.clone()), GTimer { gates: gates.clone(), n: AtomicUsize::new(0) }, AnyCache(cfg.cache))
            .max_batch_size(cfg.max_batch);
        World { sim, gates, dl: Arc::new(dl), log, task_of: vec![], dropped: vec![false; cfg.reqs.len()], drops: 0 }
    }

    /// enabled actions in a fixed order; empty = quiescent (every request started, no timer pending, no loader
    /// call pending, nothing woken)
    fn enabled(&self, cfg: &Cfg, fine: bool) -> Vec<Act> {
        let mut v = vec![];
        let next = self.task_of.len();
        if next < cfg.reqs.len() {
            v.push(Act::Start(next));
        }
        if fine {
            v.extend(self.sim.woken().into_iter().map(Act::Poll));
        }
        for (g, label) in self.gates.pending() {
            v.push(if label.starts_with('T') { Act::Fire(g) } else { Act::Complete(g) });
        }
        if !v.is_empty() && self.drops < cfg.max_drops {
            v.extend((0..next).filter(|i| !self.dropped[*i] && !self.sim.is_done(self.task_of[*i])).map(Act::Drop));
        }
        v
    }

    fn apply(&mut self, cfg: &Cfg, a: Act, fine: bool) {
        match a {
            Act::Start(i) => {
                {
                    let mut l = locked(&self.log);
                    let t = l.tick();
                    l.req_start[i] = Some(t);
                    l.trace.push(format!("start r{}", i));
                }
                let dl = self.dl.clone();
                let log = self.log.clone();
                let keys = cfg.reqs[i].clone();
                let t = self.sim.spawn(
                    &format!("r{}", i),
                    Box::pin(async move {
                        let r = dl.load_many(keys).await;
                        let mut l = locked(&log);
                        let t = l.tick();
                        l.req_done[i] = Some(t);
                        l.results[i] = Some(r.map(|m| m.into_iter().collect()));
                    }),
                );
                self.task_of.push(t);
                self.sim.poll_task(t);
            }
            Act::Poll(t) => {
                locked(&self.log).trace.push(format!("poll {}#{}", self.sim.task_name(t), t));
                self.sim.poll_task(t);
            }
            Act::Fire(g) | Act::Complete(g) => {
                let label = self.gates.labels()[g].clone();
                locked(&self.log).trace.push(format!("{} {}", if matches!(a, Act::Fire(_)) { "fire" } else { "complete" }, label));
                self.gates.open(g);
            }
            Act::Drop(i) => {
                {
                    let mut l = locked(&self.log);
                    let t = l.tick();
                    // for a dropped request `req_done` is the time of the drop; it has no result
                    l.req_done[i] = Some(t);
                    l.trace.push(format!("drop r{}", i));
                }
                self.sim.cancel(self.task_of[i]);
                self.dropped[i] = true;
                self.drops += 1;
            }
        }
        if !fine && !self.sim.settle() {
            panic!("tasks keep waking each other (100000 rounds without reaching quiescence)");
        }
    }
}

#[derive(Default)]
struct Stats {
    overlapped: bool,
    cache_hit: bool,
    shared_batch: bool,
    at_max: bool,
    over_max: bool,
    loader_error: bool,
    omission: bool,
    dropped: bool,
    mixed: bool,
    refetch_in_flight: bool,
}

/// The oracle, from the property statement; evaluated at quiescence.
fn oracle(cfg: &Cfg, l: &Log, dropped: &[bool]) -> Result<Stats, String> {
    let mut st = Stats::default();
    let largest = cfg.reqs.iter().map(|r| r.len()).max().unwrap_or(0);
    let script = |j: usize| cfg.script.get(j).copied().unwrap_or_default();
    let returned = |j: usize, k: u8| l.calls[j].keys.contains(&k) && !script(j).fail && script(j).omit & (1 << k) == 0;
    for (j, c) in l.calls.iter().enumerate() {
        let set: BTreeSet<u8> = c.keys.iter().copied().collect();
        if set.len() != c.keys.len() {
            return Err(format!("loader call L{} was given a key twice: {:?}", j, c.keys));
        }
        if c.keys.len() >= cfg.max_batch + largest {
            return Err(format!("loader call L{} has {} keys {:?}: not less than max_batch_size {} + largest single request {}", j, c.keys.len(), c.keys, cfg.max_batch, largest));
        }
        if c.end.is_none() {
            return Err(format!("internal: loader call L{} not completed at quiescence", j));
        }
        st.at_max |= c.keys.len() >= cfg.max_batch;
        st.over_max |= c.keys.len() > cfg.max_batch;
    }
    let mut served_by: Vec<BTreeSet<usize>> = vec![BTreeSet::new(); cfg.reqs.len()];
    for (i, keys) in cfg.reqs.iter().enumerate() {
        st.dropped |= dropped[i];
        let t0 = l.req_start[i].ok_or_else(|| format!("internal: r{} never started", i))?;
        let end_i = l.req_done[i].unwrap_or(u64::MAX);
        st.overlapped |= (0..cfg.reqs.len()).any(|o| o != i && l.req_start[o].map_or(false, |t| t > t0 && t < end_i));
        if dropped[i] {
            continue;
        }
        let (done, result) = match (l.req_done[i], &l.results[i]) {
            (Some(d), Some(r)) => (d, r),
            _ => {
                return Err(format!(
                    "r{} {:?} never completed: the executor is quiescent (all requests started, every timer fired, every loader call completed, no task woken) and the load is still waiting",
                    i, keys
                ))
            }
        };
        // a call this request can have joined: started after the request, finished before its completion
        let joinable = |j: usize| l.calls[j].start > t0 && l.calls[j].end.map_or(false, |e| e < done);
        match result {
            Err(e) => {
                let j = *e as usize;
                if !(j < l.calls.len() && script(j).fail && joinable(j) && keys.iter().any(|k| l.calls[j].keys.contains(k))) {
                    return Err(format!("r{} {:?} completed with Err({}), which is not the error of a failed loader call that it joined", i, keys, e));
                }
                st.loader_error = true;
                served_by[i].insert(j);
            }
            Ok(m) => {
                if let Some(k) = m.keys().find(|k| !keys.contains(k)) {
                    return Err(format!("r{} {:?}: result contains key {} that was not requested", i, keys, k));
                }
                let (mut from_cache, mut from_loader) = (false, false);
                for k in keys.iter().copied().collect::<BTreeSet<u8>>() {
                    match m.get(&k) {
                        Some(v) => {
                            let (j, vk) = ((*v / 1000) as usize, (*v % 1000) as u8);
                            if j == 0 || j > l.calls.len() || vk != k || !returned(j - 1, k) {
                                return Err(format!("r{} {:?}: value {} for key {} was never returned by the loader for that key", i, keys, v, k));
                            }
                            let j = j - 1;
                            let cend = l.calls[j].end.unwrap();
                            if cend < t0 {
                                // finished before the request began: can only have come from the cache
                                if cfg.cache == Mode::No {
                                    return Err(format!("r{} {:?}: key {} got value {} of loader call L{}, which finished before the request started, with NoCache", i, keys, k, v, j));
                                }
                                if let Some(j2) = (0..l.calls.len()).find(|j2| returned(*j2, k) && l.calls[*j2].end.map_or(false, |e| e > cend && e < t0)) {
                                    return Err(format!("r{} {:?}: key {} got the stale value {} of L{}; the cache held the value of L{} when the request started", i, keys, k, v, j, j2));
                                }
                                from_cache = true;
                            } else if joinable(j) {
                                from_loader = true;
                                served_by[i].insert(j);
                            } else {
                                return Err(format!(
                                    "r{} {:?}: key {} got value {} of L{}, a loader call that neither finished before the request started (cache) nor started after it",
                                    i, keys, k, v, j
                                ));
                            }
                        }
                        None => {
                            // absent: only if a loader call that the request joined left the key out
                            match (0..l.calls.len()).find(|j| joinable(*j) && l.calls[*j].keys.contains(&k) && !script(*j).fail && script(*j).omit & (1 << k) != 0) {
                                Some(j) => {
                                    st.omission = true;
                                    from_loader = true;
                                    served_by[i].insert(j);
                                }
                                None => {
                                    return Err(format!(
                                        "r{} {:?}: key {} is missing from the result although no loader call started after the request was given the key and left it out",
                                        i, keys, k
                                    ))
                                }
                            }
                        }
                    }
                }
                st.cache_hit |= from_cache;
                st.mixed |= from_cache && from_loader;
            }
        }
    }
    for j in 0..l.calls.len() {
        st.shared_batch |= served_by.iter().filter(|s| s.contains(&j)).count() >= 2;
        // a key asked from the loader again while an earlier call for it was still running
        st.refetch_in_flight |= (0..j).any(|j0| l.calls[j0].end.unwrap() > l.calls[j].start && l.calls[j0].keys.iter().any(|k| l.calls[j].keys.contains(k)));
    }
    Ok(st)
}

struct RunOut {
    case: Case,
    truncated: bool,
}

/// Build a fresh world and run one schedule to quiescence. `choose` picks among the enabled actions; after
/// `max_actions` choices the first enabled action is taken until quiescence.
fn execute(cfg: &Cfg, fine: bool, max_actions: usize, choose: &mut dyn FnMut(&[Act]) -> usize) -> RunOut {
    let log: SharedLog = Arc::new(Mutex::new(Log::default()));
    let mut truncated = false;
    let log2 = log.clone();
    let res = catch(|| {
        let mut w = World::new(cfg, log2);
        let mut steps = 0usize;
        loop {
            let en = w.enabled(cfg, fine);
            if en.is_empty() {
                break;
            }
            let c = if steps < max_actions {
                choose(&en).min(en.len() - 1)
            } else {
                truncated = true;
                0
            };
            steps += 1;
            w.apply(cfg, en[c], fine);
        }
        w.dropped.clone()
    });
    let l = locked(&log);
    let calls: Vec<String> = l
        .calls
        .iter()
        .enumerate()
        .map(|(j, c)| {
            let mut k = c.keys.clone();
            k.sort();
            format!("L{}{:?}", j, k)
        })
        .collect();
    let results: Vec<String> = (0..cfg.reqs.len()).map(|i| format!("r{}={}", i, l.results[i].as_ref().map(|r| format!("{:?}", r)).unwrap_or_else(|| "-".into()))).collect();
    let text = format!(
        "{} [{}] | {} | loader calls: {} | results: {}",
        cfg.text(),
        if fine { "every poll is an action" } else { "woken tasks polled after every action" },
        l.trace.join("; "),
        calls.join(" "),
        results.join(" ")
    );
    let case = match res {
        Err(p) => Case::fail(text, format!("panic: {}", p)),
        Ok(dropped) => match oracle(cfg, &l, &dropped) {
            Err(why) => Case::fail(text, why),
            Ok(st) => Case::pass(text)
                .nontrivial(st.overlapped)
                .class(cfg.cache.name())
                .class_if(st.overlapped, "requests-overlap")
                .class_if(st.shared_batch, "batch-shared-by-requests")
                .class_if(st.cache_hit, "served-from-cache")
                .class_if(st.mixed, "partly-from-cache")
                .class_if(st.at_max, "batch-reaches-max")
                .class_if(st.over_max, "batch-over-max")
                .class_if(st.loader_error, "loader-error-delivered")
                .class_if(st.omission, "loader-omits-key")
                .class_if(st.dropped, "waiter-dropped")
                .class_if(st.refetch_in_flight, "key-refetched-while-in-flight"),
        },
    };
    RunOut { case, truncated }
}

/// Stateless depth-first enumeration of every action sequence of one configuration: each run re-creates the
/// world and follows the choice stack, then the deepest choice with an untried alternative is advanced.
/// Returns (runs, complete); None if a violation was reported.
fn dfs(ctx: &mut Ctx, stream: &str, cfg: &Cfg, fine: bool, max_actions: usize) -> Option<(u64, bool)> {
    let mut stack: Vec<(usize, usize)> = vec![];
    let mut runs = 0u64;
    let mut complete = true;
    loop {
        let mut depth = 0usize;
        let mut mismatch = false;
        let out = execute(cfg, fine, max_actions, &mut |en: &[Act]| {
            if depth == stack.len() {
                stack.push((0, en.len()));
            } else if stack[depth].1 != en.len() {
                mismatch = true;
            }
            depth += 1;
            stack[depth - 1].0
        });
        runs += 1;
        complete &= !out.truncated && !mismatch;
        if ctx.check_case(stream, out.case, json!({ "config": cfg.text() })) {
            return None;
        }
        loop {
            match stack.pop() {
                None => return Some((runs, complete)),
                Some((c, n)) if c + 1 < n => {
                    stack.push((c + 1, n));
                    break;
                }
                Some(_) => {}
            }
        }
    }
}

fn subsets3() -> Vec<Vec<u8>> {
    (1u8..8).map(|m| (0..3u8).filter(|k| m & (1 << k) != 0).collect()).collect()
}

/// all lists of `n` requests, each a non-empty subset of {0,1,2}
fn request_lists(n: usize) -> Vec<Vec<Vec<u8>>> {
    let subs = subsets3();
    let mut out: Vec<Vec<Vec<u8>>> = vec![vec![]];
    for _ in 0..n {
        out = out.into_iter().flat_map(|p| subs.iter().map(move |s| { let mut q = p.clone(); q.push(s.clone()); q })).collect();
    }
    out
}

fn gen_cfg(s: &mut dyn Src) -> Cfg {
    let n = 1 + s.choose(8);
    let nkeys = 2 + s.choose(5);
    let reqs: Vec<Vec<u8>> = (0..n)
        .map(|_| {
            let len = [1, 2, 3, 4, 0][s.weighted(&[8, 8, 4, 2, 1])];
            (0..len).map(|_| s.choose(nkeys) as u8).collect()
        })
        .collect();
    let max_batch = 1 + s.weighted(&[2, 3, 3, 2, 1, 1]);
    let cache = match s.choose(5) {
        0 => Mode::No,
        1 => Mode::Hash,
        2 => Mode::Lru(2),
        3 => Mode::Lru(1),
        _ => Mode::Lru(4),
    };
    let script = (0..s.choose(9))
        .map(|_| match s.weighted(&[5, 1, 1]) {
            0 => CallScript::default(),
            1 => CallScript { fail: true, omit: 0 },
            _ => CallScript { fail: false, omit: s.choose(64) as u8 },
        })
        .collect();
    Cfg { reqs, max_batch, cache, script, max_drops: s.weighted(&[3, 2, 1]) }
}

pub fn run(ctx: &mut Ctx) {
    ctx.rule = "worlds = DataLoader over a gated logging scripted Loader + queueing spawner + gate timer; schedule = sequence of {start request, poll a woken \
                task, fire a timer, complete a loader call, drop a waiting request}. Enumerated completely (depth-first over action sequences, world re-created \
                per sequence): (a) stream dfs-3req: every list of 1..=3 load_many requests over non-empty subsets of 3 keys x max_batch_size 1..=3 x \
                NoCache/HashMapCache/LruCache(2) (thorough: + LruCache(1)) x three loader scripts (all calls succeed; first call fails; first call omits key 0 \
                and second fails), with every woken task polled after each action, at most 1 drop under the all-succeed script (thorough: 2, and 1 under the \
                others); (b) stream dfs-2req-fine: the same for 1..=2 requests with every single poll as its own action (quick: NoCache/HashMapCache only). `exhaustive` refers to (a) and (b). \
                Thorough adds a bounded enumeration for 3 requests with single polls (all prefixes of 9 actions). Random (proptest): 1..=8 requests of 0..=4 keys \
                (repeats allowed) over 2..=6 keys, max_batch_size 1..=6, five cache modes, scripted failures/omissions, up to 2 drops, every poll its own action. \
                non-trivial = at least two requests were in flight at the same time; distinct by configuration + action sequence"
        .into();
    ctx.assume("liveness is decided as a safety property: at quiescence of the deterministic executor (every request started, every timer fired, every loader call completed, no task woken) no undropped load may still be pending; spawned tasks are always run and timers always fire eventually");
    ctx.assume("requests are load_many calls of one key type (load_one is load_many of one key); caching stays enabled; no feed/clear during a run (C29 covers those)");
    ctx.assume("a value counts as served from the cache if the loader call that produced it finished before the request started; it must then be the most recent value the loader returned for that key before the request (for LruCache the entry may also have been evicted: either the cached value or a fresh loader value is accepted for every key, exact hit/miss behaviour is C29's)");
    ctx.assume("a key not served from the cache must be in a loader call that started after the request and finished before the request completed; a request that completes with an error must carry the error of such a call that failed and contained one of its keys");
    ctx.assume("size of a request = number of keys passed to load_many (repeats counted), which is the weaker reading of the batch bound");
    ctx.assume("the loader returns only keys it was asked for; loader errors are distinct per call; requests of the enumerated configurations start in index order (the configuration list is closed under permutation of the requests)");
    ctx.assume("harness: the HashMap returned by the loader is re-created until it iterates in ascending key order so that runs with an evicting LruCache are reproducible; the oracle does not depend on it");

    // a replay of a saved random schedule needs none of the enumerations
    if ctx.replay.is_none() && !enumerations(ctx) {
        return;
    }

    // random schedules over larger configurations
    let n = ctx.tier.pick(200_000u32, 8_000_000u32);
    ctx.stream("random", n, 320, |s| {
        let cfg = gen_cfg(s);
        let mut out = execute(&cfg, true, 4000, &mut |en: &[Act]| {
            // pick a kind first (so that many droppable waiters do not crowd out progress), then an action of it
            let kind = |a: &Act| match a {
                Act::Start(_) => 0,
                Act::Poll(_) => 1,
                Act::Fire(_) => 2,
                Act::Complete(_) => 3,
                Act::Drop(_) => 4,
            };
            let mut w = [0u32; 5];
            for a in en {
                w[kind(a)] = [4, 5, 3, 3, 1][kind(a)];
            }
            let k = s.weighted(&w);
            let of_kind: Vec<usize> = (0..en.len()).filter(|i| kind(&en[*i]) == k).collect();
            of_kind[s.choose(of_kind.len())]
        });
        // generator health of this stream is judged on its own classes
        let own: Vec<String> = out.case.classes.iter().map(|c| format!("random/{}", c)).collect();
        out.case.classes.extend(own);
        out.case
    });

    ctx.floor("random/requests-overlap", 50_000);
    ctx.floor("random/batch-shared-by-requests", 30_000);
    ctx.floor("random/served-from-cache", 8_000);
    ctx.floor("random/partly-from-cache", 4_000);
    ctx.floor("random/batch-over-max", 15_000);
    ctx.floor("random/loader-error-delivered", 8_000);
    ctx.floor("random/loader-omits-key", 6_000);
    ctx.floor("random/waiter-dropped", 20_000);
    ctx.floor("served-from-cache", 50_000);
    ctx.floor("batch-shared-by-requests", 100_000);
}

/// witness + the bounded-exhaustive streams; false if a violation was reported
fn enumerations(ctx: &mut Ctx) -> bool {
    // regression / smoke witness
    let t0 = Instant::now();
    let w = Cfg { reqs: vec![vec![0, 1], vec![1, 2], vec![0]], max_batch: 3, cache: Mode::Hash, script: vec![], max_drops: 0 };
    let out = execute(&w, true, usize::MAX, &mut |_| 0);
    if ctx.check_case("witness", out.case, json!({})) {
        return false;
    }
    ctx.enumerated("witness", 1, true, t0);

    let thorough = ctx.tier == vcore::Tier::Thorough;
    let caches: Vec<Mode> = if thorough { vec![Mode::No, Mode::Hash, Mode::Lru(2), Mode::Lru(1)] } else { vec![Mode::No, Mode::Hash, Mode::Lru(2)] };
    // drops allowed per loader script (all succeed / first call fails / first call omits key 0 and second fails)
    let drops = if thorough { [2, 1, 1] } else { [1, 0, 0] };

    // (a) woken tasks polled after every action, up to 3 requests
    let a = match sweep(ctx, "dfs-3req", 1..=3, false, SAFETY_CAP, &caches, drops) {
        Some(c) => c,
        None => return false,
    };
    // (b) every poll its own action, up to 2 requests
    let caches_b = if thorough { &caches[..] } else { &caches[..2] };
    let b = match sweep(ctx, "dfs-2req-fine", 1..=2, true, SAFETY_CAP, caches_b, drops) {
        Some(c) => c,
        None => return false,
    };
    ctx.exhaustive = Some(a && b);
    if thorough {
        // (c) 3 requests, every poll its own action: every prefix of 9 actions, each continued with the first
        // enabled action until quiescence (a bounded exploration, reported as incomplete)
        if sweep(ctx, "dfs-3req-fine-prefix9", 3..=3, true, 9, &[Mode::Hash], [0, 0, 0]).is_none() {
            return false;
        }
    }
    true
}

/// a run longer than this many actions is cut (and the enumeration reported as incomplete); never reached by
/// the enumerated configurations
const SAFETY_CAP: usize = 64;

/// Enumerate every action sequence for every list of `ns` requests over non-empty subsets of 3 keys x
/// max_batch_size 1..=3 x `caches` x three loader scripts. Returns whether every enumeration was complete;
/// None if a violation was reported.
fn sweep(ctx: &mut Ctx, stream: &str, ns: std::ops::RangeInclusive<usize>, fine: bool, max_actions: usize, caches: &[Mode], drops: [usize; 3]) -> Option<bool> {
    let scripts: [Vec<CallScript>; 3] =
        [vec![], vec![CallScript { fail: true, omit: 0 }], vec![CallScript { fail: false, omit: 0b001 }, CallScript { fail: true, omit: 0 }]];
    let t0 = Instant::now();
    let (mut runs, mut configs, mut complete) = (0u64, 0u64, true);
    for n in ns {
        for reqs in request_lists(n) {
            for max_batch in 1..=3usize {
                for cache in caches {
                    for (si, script) in scripts.iter().enumerate() {
                        let cfg = Cfg { reqs: reqs.clone(), max_batch, cache: *cache, script: script.clone(), max_drops: drops[si] };
                        let (r, c) = dfs(ctx, stream, &cfg, fine, max_actions)?;
                        runs += r;
                        configs += 1;
                        complete &= c;
                    }
                }
            }
        }
    }
    ctx.enumerated(stream, runs, complete, t0);
    ctx.note(&format!("{}_configurations", stream), json!(configs));
    Some(complete)
}
