//! C31 — persisted queries execute only the document registered under the hash.
//!
//! Histories of requests against `ApolloPersistedQueries` are run next to a reference model (the set of pool
//! texts that were registered with their own SHA-256). Every pool text echoes constants / aliases that no other
//! text produces, so the response (and the log written by the resolvers) identifies the executed document.
use async_graphql::extensions::apollo_persisted_queries::{ApolloPersistedQueries, CacheStorage, LruCacheStorage};
use async_graphql::parser::types::ExecutableDocument;
use async_graphql::{Context, EmptyMutation, EmptySubscription, Object, Request, Response, Schema, Value as GValue, Variables};
use serde_json::{json, Value as J};
use sha2::{Digest, Sha256};
use std::collections::BTreeSet;
use std::sync::{Arc, Mutex};
use vcore::{Case, Ctx, Src};

type ExecLog = Arc<Mutex<Vec<i32>>>;

struct Query;

#[Object]
impl Query {
    async fn echo(&self, ctx: &Context<'_>, v: i32) -> i32 {
        ctx.data_unchecked::<ExecLog>().lock().unwrap().push(v);
        v
    }
    async fn tag(&self, ctx: &Context<'_>, s: String) -> String {
        ctx.data_unchecked::<ExecLog>().lock().unwrap().push(-(s.chars().count() as i32));
        s
    }
}

/// Deterministic exact LRU over the public `CacheStorage` trait (the shipped `LruCacheStorage` rounds its
/// capacity up to 64 slots, so it never evicts with this pool; this one does).
#[derive(Clone)]
struct StrictLru {
    cap: usize,
    items: Arc<Mutex<Vec<(String, ExecutableDocument)>>>,
}

#[async_trait::async_trait]
impl CacheStorage for StrictLru {
    async fn get(&self, key: String) -> Option<ExecutableDocument> {
        let mut it = self.items.lock().unwrap();
        let pos = it.iter().position(|(k, _)| *k == key)?;
        let e = it.remove(pos);
        let doc = e.1.clone();
        it.push(e);
        Some(doc)
    }
    async fn set(&self, key: String, query: ExecutableDocument) {
        let mut it = self.items.lock().unwrap();
        it.retain(|(k, _)| *k != key);
        it.push((key, query));
        while it.len() > self.cap {
            it.remove(0);
        }
    }
}

/// What executing a pool text must produce (for variable value `x` and the chosen operation of entry 5).
enum Expect {
    Data(J, Vec<i32>),
    /// the document parses but does not validate: an error naming this marker, no resolver runs
    Invalid(&'static str),
    /// the text has no parse at all
    Unparsable,
}

const POOL: [&str; 11] = [
    "{ echo(v: 100) }",
    "{ k1: echo(v: 101) }",
    "query Op2 { echo(v: 102) second: echo(v: 2) }",
    "query V3($x: Int!) { k3: echo(v: $x) }",
    "{ ...F4 } fragment F4 on Query { k4: echo(v: 104) }",
    "query A5 { a5: echo(v: 105) } query B5 { b5: echo(v: 1105) }",
    "{ echo(v:100) }",
    "{ missing7 }",
    "{ k8: echo(v: 108) ",
    "query { echo(v: } }",
    "{ k10: tag(s: \"\u{e9}\u{1f600}\") }",
];

fn expect(i: usize, x: i32, op_b: bool) -> Expect {
    match i {
        0 | 6 => Expect::Data(json!({"echo": 100}), vec![100]),
        1 => Expect::Data(json!({"k1": 101}), vec![101]),
        2 => Expect::Data(json!({"echo": 102, "second": 2}), vec![2, 102]),
        3 => Expect::Data(json!({"k3": x}), vec![x]),
        4 => Expect::Data(json!({"k4": 104}), vec![104]),
        5 => {
            if op_b {
                Expect::Data(json!({"b5": 1105}), vec![1105])
            } else {
                Expect::Data(json!({"a5": 105}), vec![105])
            }
        }
        7 => Expect::Invalid("missing7"),
        10 => Expect::Data(json!({"k10": "\u{e9}\u{1f600}"}), vec![-2]),
        _ => Expect::Unparsable,
    }
}

fn sha_hex(text: &str) -> String {
    Sha256::digest(text.as_bytes()).iter().map(|b| format!("{:02x}", b)).collect()
}

#[derive(Clone, Debug)]
enum Step {
    /// query text + its own hash, version 1
    Register(usize),
    /// empty query + the hash of pool text i
    Lookup(usize),
    /// empty query + a hash that belongs to no pool text
    LookupUnknown(usize),
    /// query text i + a hash that is not sha256(text i)
    WrongHash(usize, usize),
    /// right hash, version != 1, with or without the query text
    WrongVersion(usize, i32, bool),
    /// `persistedQuery` is not an object carrying a hash
    Malformed(usize, usize, bool),
    /// no `persistedQuery` extension at all
    Plain(usize),
}

const VERSIONS: [i32; 5] = [2, 0, -1, i32::MAX, 100];
const N_WRONG: usize = 7;
const N_MALFORMED: usize = 9;
const N_UNKNOWN: usize = 5;

fn wrong_hash(i: usize, variant: usize, hashes: &[String]) -> String {
    let own = &hashes[i];
    match variant {
        // the hash of another pool text (the dangerous one: a poisoned entry would later be served for it)
        0..=2 => {
            let others: Vec<usize> = (0..POOL.len()).filter(|j| hashes[*j] != *own).collect();
            hashes[others[(i * 3 + variant * 5) % others.len()]].clone()
        }
        3 => {
            let mut h = own.clone();
            let last = h.pop().unwrap();
            h.push(if last == '0' { '1' } else { '0' });
            h
        }
        4 => own[..63].to_string(),
        5 => String::new(),
        _ => sha_hex(&format!("{} ", POOL[i])),
    }
}

fn malformed(variant: usize, hash: &str) -> GValue {
    let j = match variant {
        0 => J::Null,
        1 => json!(hash),
        2 => json!(1),
        // (a list `[1, hash]` is decoded like the object by serde and is therefore not malformed)
        3 => json!([]),
        4 => json!({}),
        5 => json!({"version": 1}),
        6 => json!({"version": 1, "sha256Hash": 5}),
        7 => json!({"version": 1, "sha256Hash": null}),
        _ => json!({"version": 1, "sha256Hash": [hash]}),
    };
    GValue::from_json(j).unwrap()
}

fn unknown_hash(variant: usize, hashes: &[String]) -> String {
    match variant {
        0 => sha_hex("never sent"),
        1 => String::new(),
        2 => hashes[0][..63].to_string(),
        3 => format!("{}0", hashes[1]),
        _ => "0".repeat(64),
    }
}

fn pq(version: i32, hash: &str) -> GValue {
    GValue::from_json(json!({"version": version, "sha256Hash": hash})).unwrap()
}

fn gen_steps(s: &mut dyn Src) -> Vec<(Step, i32, bool)> {
    let n = 1 + s.choose(30);
    (0..n)
        .map(|_| {
            let i = s.choose(POOL.len());
            let st = match s.weighted(&[5, 6, 3, 2, 2, 1, 1]) {
                0 => Step::Register(i),
                1 => Step::Lookup(i),
                2 => Step::WrongHash(i, s.choose(N_WRONG)),
                3 => Step::WrongVersion(i, VERSIONS[s.choose(VERSIONS.len())], s.bool()),
                4 => Step::Malformed(i, s.choose(N_MALFORMED), s.bool()),
                5 => Step::Plain(i),
                _ => Step::LookupUnknown(s.choose(N_UNKNOWN)),
            };
            let x = 7 + s.choose(3) as i32;
            let op_b = s.bool();
            (st, x, op_b)
        })
        .collect()
}

fn step_name(st: &Step, x: i32, op_b: bool) -> String {
    let par = |i: usize| match i {
        3 => format!("(x={})", x),
        5 => format!("(op={})", if op_b { "B5" } else { "A5" }),
        _ => String::new(),
    };
    match st {
        Step::Register(i) => format!("register#{}{}", i, par(*i)),
        Step::Lookup(i) => format!("lookup#{}{}", i, par(*i)),
        Step::LookupUnknown(v) => format!("lookup-unknown-hash[{}]", v),
        Step::WrongHash(i, v) => format!("query#{}+wrong-hash[{}]{}", i, v, par(*i)),
        Step::WrongVersion(i, ver, q) => format!("version={}#{}{}{}", ver, i, if *q { "+query" } else { "" }, par(*i)),
        Step::Malformed(i, v, q) => format!("malformed[{}]#{}{}{}", v, i, if *q { "+query" } else { "" }, par(*i)),
        Step::Plain(i) => format!("plain#{}{}", i, par(*i)),
    }
}

struct Seen {
    resp: Response,
    log: Vec<i32>,
}
impl Seen {
    fn msgs(&self) -> Vec<&str> {
        self.resp.errors.iter().map(|e| e.message.as_str()).collect()
    }
    fn render(&self) -> String {
        format!("data={} errors={:?} resolver-log={:?}", self.resp.data, self.msgs(), self.log)
    }
    /// exactly the execution of pool text i
    fn is_exec(&self, i: usize, x: i32, op_b: bool) -> bool {
        match expect(i, x, op_b) {
            Expect::Data(d, mut calls) => {
                let mut log = self.log.clone();
                log.sort();
                calls.sort();
                self.resp.errors.is_empty() && self.resp.data.clone().into_json().ok() == Some(d) && log == calls
            }
            Expect::Invalid(marker) => self.log.is_empty() && self.msgs().iter().any(|m| m.contains(marker)),
            Expect::Unparsable => false,
        }
    }
    fn is_not_found(&self) -> bool {
        self.log.is_empty() && self.msgs() == vec!["PersistedQueryNotFound"]
    }
    /// the request failed and no document (not even the non-validating pool text) was executed
    fn is_rejected(&self) -> bool {
        self.log.is_empty() && !self.resp.errors.is_empty() && self.resp.data == GValue::Null && !self.msgs().iter().any(|m| m.contains("missing"))
    }
}

fn run_history<S: CacheStorage>(label: &str, storage: S, steps: &[(Step, i32, bool)], hashes: &[String]) -> Case {
    let schema = Schema::build(Query, EmptyMutation, EmptySubscription).extension(ApolloPersistedQueries::new(storage)).finish();
    // reference model: pool texts whose document a hash-only request may (but, eviction being allowed, need not) get
    let mut may: BTreeSet<usize> = BTreeSet::new();
    let text = format!("{}: {}", label, steps.iter().map(|(st, x, b)| step_name(st, *x, *b)).collect::<Vec<_>>().join("; "));
    let (mut hits, mut evicted, mut rejected, mut poison_probe, mut unparsable, mut invalid_replayed, mut twin) = (0, 0, 0, 0, 0, 0, 0);
    let mut wrong_supplied: BTreeSet<String> = BTreeSet::new();
    for (k, (st, x, op_b)) in steps.iter().enumerate() {
        let (x, op_b) = (*x, *op_b);
        let log: ExecLog = Arc::new(Mutex::new(vec![]));
        let (query, ext, i): (&str, Option<GValue>, Option<usize>) = match st {
            Step::Register(i) | Step::WrongHash(i, _) | Step::Plain(i) => (
                POOL[*i],
                match st {
                    Step::Register(_) => Some(pq(1, &hashes[*i])),
                    Step::WrongHash(_, v) => Some(pq(1, &wrong_hash(*i, *v, hashes))),
                    _ => None,
                },
                Some(*i),
            ),
            Step::Lookup(i) => ("", Some(pq(1, &hashes[*i])), Some(*i)),
            Step::LookupUnknown(v) => ("", Some(pq(1, &unknown_hash(*v, hashes))), None),
            Step::WrongVersion(i, ver, q) => (if *q { POOL[*i] } else { "" }, Some(pq(*ver, &hashes[*i])), Some(*i)),
            Step::Malformed(i, v, q) => (if *q { POOL[*i] } else { "" }, Some(malformed(*v, &hashes[*i])), Some(*i)),
        };
        let mut req = Request::new(query).variables(Variables::from_json(json!({"x": x}))).data(log.clone());
        if i == Some(5) {
            req = req.operation_name(if op_b { "B5" } else { "A5" });
        }
        if let Some(e) = ext {
            req.extensions.insert("persistedQuery".to_string(), e);
        }
        let resp = vcore::det::block_on(schema.execute(req));
        let seen = Seen { resp, log: log.lock().unwrap().clone() };
        let bad = |want: &str| {
            Case::fail(text.clone(), format!("step {} ({}): expected {}; got {}", k, step_name(st, x, op_b), want, seen.render()))
        };
        match st {
            Step::Register(i) | Step::Plain(i) => {
                if matches!(expect(*i, x, op_b), Expect::Unparsable) {
                    if !seen.is_rejected() {
                        return bad("a parse error and no execution");
                    }
                    unparsable += matches!(st, Step::Register(_)) as u32;
                } else {
                    if !seen.is_exec(*i, x, op_b) {
                        return bad(&format!("the execution of pool text #{}", i));
                    }
                    // don't-care: a plain request may or may not register its text
                    may.insert(*i);
                }
            }
            Step::Lookup(i) => {
                if may.contains(i) && seen.is_exec(*i, x, op_b) {
                    hits += 1;
                    invalid_replayed += (*i == 7) as u32;
                    poison_probe += wrong_supplied.contains(&hashes[*i]) as u32;
                } else if seen.is_not_found() {
                    evicted += may.contains(i) as u32;
                    poison_probe += wrong_supplied.contains(&hashes[*i]) as u32;
                    twin += ((*i == 0 && may.contains(&6)) || (*i == 6 && may.contains(&0))) as u32;
                } else if may.contains(i) {
                    return bad(&format!("the execution of pool text #{} or PersistedQueryNotFound", i));
                } else {
                    return bad("PersistedQueryNotFound (no text with this hash was registered)");
                }
            }
            Step::LookupUnknown(_) => {
                if !seen.is_not_found() {
                    return bad("PersistedQueryNotFound");
                }
            }
            Step::WrongHash(i, v) => {
                if !seen.is_rejected() {
                    return bad("an error and no execution (query does not match the supplied hash)");
                }
                wrong_supplied.insert(wrong_hash(*i, *v, hashes));
                rejected += 1;
            }
            Step::WrongVersion(..) => {
                if !seen.is_rejected() {
                    return bad("an error and no execution (unsupported version)");
                }
                rejected += 1;
            }
            Step::Malformed(..) => {
                if !seen.is_rejected() {
                    return bad("an error and no execution (no usable persistedQuery payload)");
                }
                rejected += 1;
            }
        }
    }
    Case::pass(text)
        .nontrivial(hits > 0 && rejected > 0)
        .class_if(hits > 0, "lookup-hit")
        .class_if(evicted > 0, "lookup-evicted")
        .class_if(rejected > 0, "rejected-request")
        .class_if(poison_probe > 0, "lookup-of-hash-misused-earlier")
        .class_if(unparsable > 0, "unparsable-text-right-hash")
        .class_if(invalid_replayed > 0, "non-validating-document-replayed")
        .class_if(twin > 0, "whitespace-twin-not-found")
}

pub fn run(ctx: &mut Ctx) {
    ctx.rule = "random histories (1..=30 steps) over 11 fixed query texts (constants, aliases, a variable, a fragment, two operations, a \
                whitespace twin, a non-validating text, two unparsable texts, a non-ASCII text) of register / hash-only lookup / lookup of \
                unknown hash / query+wrong hash / wrong version / malformed payload / plain request, LruCacheStorage cap 1..=4 or a harness \
                exact-LRU CacheStorage cap 1..=3; non-trivial = at least one hash-only hit and one rejected request in the history; distinct \
                by rendered history"
        .into();
    ctx.assume("hashes are lowercase hex strings; an upper-case spelling of the right hash is outside the domain (either answer acceptable)");
    ctx.assume("an unsupported version or a payload without usable hash must fail the request (APQ protocol), not merely leave the cache unchanged");
    ctx.assume("payloads with a usable hash but a missing / string / float version are outside the domain (lenient decoding would be acceptable)");
    ctx.assume("whether a plain request (no persistedQuery extension) also registers its text is left open: it is added to the may-set");
    ctx.assume("eviction may happen at any time: a hash-only request for a registered text may always answer PersistedQueryNotFound");
    ctx.assume("LruCacheStorage::new(cap) rounds cap up to 64 slots (scc::HashCache), so eviction is exercised through a harness CacheStorage (exact LRU)");
    let hashes: Vec<String> = POOL.iter().map(|t| sha_hex(t)).collect();
    // SHA-256 self-test of the reference (FIPS 180-2 vector and the value pinned by the crate's own test text)
    assert_eq!(sha_hex("abc"), "ba7816bf8f01cfea414140de5dae2223b00361a396177a9cb410ff61f20015ad");
    ctx.note("pool", json!(POOL.iter().zip(&hashes).map(|(t, h)| json!({"text": t, "sha256": h})).collect::<Vec<_>>()));

    // explicit witnesses: the protocol round trip, hash misuse followed by the lookup it would poison, wrong version / malformed
    // payload carrying the query followed by a lookup, an unparsable text under its right hash
    let s = |st: Step| (st, 7, false);
    let witnesses: Vec<Vec<(Step, i32, bool)>> = vec![
        vec![s(Step::Lookup(0)), s(Step::Register(0)), s(Step::Lookup(0)), s(Step::Lookup(6)), s(Step::Lookup(1))],
        vec![s(Step::Register(1)), s(Step::WrongHash(0, 0)), s(Step::WrongHash(0, 1)), s(Step::WrongHash(0, 2)), s(Step::Lookup(1)), s(Step::Lookup(0)), s(Step::Lookup(4)), s(Step::Lookup(2))],
        vec![s(Step::WrongVersion(2, 2, true)), s(Step::Lookup(2)), s(Step::Malformed(2, 5, true)), s(Step::Lookup(2)), s(Step::Register(2)), s(Step::WrongVersion(2, 0, false)), s(Step::Lookup(2))],
        vec![s(Step::Register(8)), s(Step::Lookup(8)), s(Step::Register(7)), s(Step::Lookup(7)), s(Step::Register(5)), (Step::Lookup(5), 7, true)],
        vec![s(Step::Register(3)), (Step::Lookup(3), 9, false), s(Step::Register(10)), s(Step::Lookup(10)), s(Step::LookupUnknown(1))],
    ];
    for (n, w) in witnesses.iter().enumerate() {
        let c = run_history("witness lru cap=4", LruCacheStorage::new(4), w, &hashes);
        ctx.check_case("witness", c, json!({"witness": n}));
        let c = run_history("witness exact-lru cap=1", StrictLru { cap: 1, items: Default::default() }, w, &hashes);
        ctx.check_case("witness", c, json!({"witness": n}));
    }

    let n = ctx.tier.pick(40_000, 1_000_000);
    ctx.floor("lookup-hit", 6000);
    ctx.floor("lookup-evicted", 2000);
    ctx.floor("rejected-request", 20000);
    ctx.floor("lookup-of-hash-misused-earlier", 2000);
    ctx.floor("unparsable-text-right-hash", 5000);
    let h1 = hashes.clone();
    ctx.stream("lru-storage", n, 200, move |s| {
        let cap = 1 + s.choose(4);
        let steps = gen_steps(s);
        run_history(&format!("LruCacheStorage cap={}", cap), LruCacheStorage::new(cap), &steps, &h1)
    });
    let h2 = hashes.clone();
    ctx.stream("exact-lru-storage", n, 200, move |s| {
        let cap = 1 + s.choose(3);
        let steps = gen_steps(s);
        run_history(&format!("exact-LRU cap={}", cap), StrictLru { cap, items: Default::default() }, &steps, &h2)
    });
}
