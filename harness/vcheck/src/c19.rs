//! C19 — introspection modes: disabled at either level => no schema metadata in any response; introspection-only
//! at either level => no user resolver runs; `__typename` always resolves.
use async_graphql::dynamic;
use async_graphql::{Request, Response};
use futures_util::StreamExt;
use serde_json::Value as J;
use std::sync::{Arc, Mutex};
use vcore::{Case, Ctx, Src};
use vgql::ast::*;
use vgql::print::print_plain;

pub type Log = Arc<Mutex<Vec<String>>>;

// Names that exist only in the schemas (type / field / argument / enum value names and one description) and never in
// data: documents never select them, resolvers never return them. All contain "sentinel" (any case).
const SENTINEL: &str = "sentinel";

// ------------------------------------------------------------------------------------------------------------
// static schema with a federation entity

#[allow(dead_code)]
mod fed {
    use super::Log;
    use async_graphql::*;
    use futures_util::stream::{self, Stream};

    fn log(ctx: &Context<'_>, kind: &str) {
        let path = ctx.path_node.as_ref().map(|p| p.to_string()).unwrap_or_default();
        ctx.data_unchecked::<Log>().lock().unwrap().push(format!("{} {}", kind, path));
    }

    pub struct Widget {
        pub id: String,
    }
    #[Object]
    impl Widget {
        async fn id(&self, ctx: &Context<'_>) -> Option<ID> {
            log(ctx, "field");
            Some(ID(self.id.clone()))
        }
        async fn gauge(&self, ctx: &Context<'_>) -> Option<i32> {
            log(ctx, "field");
            Some(7)
        }
    }

    #[derive(Enum, Copy, Clone, Eq, PartialEq)]
    pub enum SentinelEnumOmega {
        SentinelValueOne,
        Two,
    }

    #[derive(InputObject)]
    pub struct SentinelInputPsi {
        pub sentinel_input_field_rho: Option<i32>,
    }

    pub struct Query;
    /// Sentinel description upsilon
    #[Object]
    impl Query {
        async fn count(&self, ctx: &Context<'_>) -> Option<i32> {
            log(ctx, "query");
            Some(3)
        }
        async fn widget(&self, ctx: &Context<'_>, id: Option<ID>) -> Option<Widget> {
            log(ctx, "query");
            Some(Widget { id: id.map_or("w0".to_string(), |i| i.0) })
        }
        async fn widgets(&self, ctx: &Context<'_>) -> Option<Vec<Widget>> {
            log(ctx, "query");
            Some(vec![Widget { id: "w1".into() }, Widget { id: "w2".into() }])
        }
        async fn sentinel_field_chi(&self, ctx: &Context<'_>, sentinel_arg_phi: Option<SentinelInputPsi>) -> Option<SentinelEnumOmega> {
            log(ctx, "query");
            let _ = sentinel_arg_phi;
            None
        }
        #[graphql(entity)]
        async fn find_widget(&self, ctx: &Context<'_>, id: ID) -> Option<Widget> {
            log(ctx, "entity");
            Some(Widget { id: id.0 })
        }
    }

    pub struct Mutation;
    #[Object]
    impl Mutation {
        async fn bump(&self, ctx: &Context<'_>, by: Option<i32>) -> Option<i32> {
            log(ctx, "mutation");
            Some(by.unwrap_or(1) + 1)
        }
        async fn make_widget(&self, ctx: &Context<'_>) -> Option<Widget> {
            log(ctx, "mutation");
            Some(Widget { id: "w9".into() })
        }
    }

    pub struct Subscription;
    #[Subscription]
    impl Subscription {
        async fn ticks(&self, ctx: &Context<'_>) -> impl Stream<Item = Option<i32>> {
            log(ctx, "subscription");
            stream::iter(vec![Some(1), Some(2)])
        }
        async fn widget_stream(&self, ctx: &Context<'_>) -> impl Stream<Item = Option<Widget>> {
            log(ctx, "subscription");
            stream::iter(vec![Some(Widget { id: "w5".into() })])
        }
    }

    pub type S = Schema<Query, Mutation, Subscription>;
}

#[derive(Clone, Copy, PartialEq, Eq, Debug)]
enum Mode {
    Enabled,
    Disabled,
    Only,
}
const MODES: [Mode; 3] = [Mode::Enabled, Mode::Disabled, Mode::Only];

fn static_schema(mode: Mode, log: &Log) -> fed::S {
    let b = async_graphql::Schema::build(fed::Query, fed::Mutation, fed::Subscription).enable_federation().data(log.clone());
    match mode {
        Mode::Enabled => b,
        Mode::Disabled => b.disable_introspection(),
        Mode::Only => b.introspection_only(),
    }
    .finish()
}

// ------------------------------------------------------------------------------------------------------------
// dynamic schema of the same shape

struct W(String);

fn dyn_log(log: &Log, ctx: &dynamic::ResolverContext<'_>, kind: &str) {
    let path = ctx.ctx.path_node.as_ref().map(|p| p.to_string()).unwrap_or_default();
    log.lock().unwrap().push(format!("{} {}", kind, path));
}

fn dynamic_schema(mode: Mode, log: &Log) -> dynamic::Schema {
    use async_graphql::Value;
    use dynamic::*;
    let l = log.clone();
    let l2 = log.clone();
    let widget = Object::new("Widget")
        .field(Field::new("id", TypeRef::named(TypeRef::ID), move |ctx| {
            dyn_log(&l, &ctx, "field");
            let id = ctx.parent_value.downcast_ref::<W>().map(|w| w.0.clone()).unwrap_or_default();
            FieldFuture::new(async move { Ok(Some(Value::from(id))) })
        }))
        .field(Field::new("gauge", TypeRef::named(TypeRef::INT), move |ctx| {
            dyn_log(&l2, &ctx, "field");
            FieldFuture::new(async move { Ok(Some(Value::from(7))) })
        }))
        .key("id");
    let omega = Enum::new("SentinelEnumOmega").item("SENTINEL_VALUE_ONE").item("TWO");
    let psi = InputObject::new("SentinelInputPsi").field(InputValue::new("sentinelInputFieldRho", TypeRef::named(TypeRef::INT)));
    let (q1, q2, q3, q4) = (log.clone(), log.clone(), log.clone(), log.clone());
    let query = Object::new("Query")
        .description("Sentinel description upsilon")
        .field(Field::new("count", TypeRef::named(TypeRef::INT), move |ctx| {
            dyn_log(&q1, &ctx, "query");
            FieldFuture::new(async move { Ok(Some(Value::from(3))) })
        }))
        .field(
            Field::new("widget", TypeRef::named("Widget"), move |ctx| {
                dyn_log(&q2, &ctx, "query");
                let id = ctx.args.get("id").and_then(|v| v.string().ok().map(str::to_string)).unwrap_or("w0".into());
                FieldFuture::new(async move { Ok(Some(FieldValue::owned_any(W(id)))) })
            })
            .argument(InputValue::new("id", TypeRef::named(TypeRef::ID))),
        )
        .field(Field::new("widgets", TypeRef::named_list("Widget"), move |ctx| {
            dyn_log(&q3, &ctx, "query");
            FieldFuture::new(async move { Ok(Some(FieldValue::list(vec![FieldValue::owned_any(W("w1".into())), FieldValue::owned_any(W("w2".into()))]))) })
        }))
        .field(
            Field::new("sentinelFieldChi", TypeRef::named("SentinelEnumOmega"), move |ctx| {
                dyn_log(&q4, &ctx, "query");
                FieldFuture::new(async move { Ok(None::<FieldValue>) })
            })
            .argument(InputValue::new("sentinelArgPhi", TypeRef::named("SentinelInputPsi"))),
        );
    let (m1, m2) = (log.clone(), log.clone());
    let mutation = Object::new("Mutation")
        .field(
            Field::new("bump", TypeRef::named(TypeRef::INT), move |ctx| {
                dyn_log(&m1, &ctx, "mutation");
                let by = ctx.args.get("by").and_then(|v| v.i64().ok()).unwrap_or(1);
                FieldFuture::new(async move { Ok(Some(Value::from(by + 1))) })
            })
            .argument(InputValue::new("by", TypeRef::named(TypeRef::INT))),
        )
        .field(Field::new("makeWidget", TypeRef::named("Widget"), move |ctx| {
            dyn_log(&m2, &ctx, "mutation");
            FieldFuture::new(async move { Ok(Some(FieldValue::owned_any(W("w9".into())))) })
        }));
    let (s1, s2) = (log.clone(), log.clone());
    let subscription = Subscription::new("Subscription")
        .field(SubscriptionField::new("ticks", TypeRef::named(TypeRef::INT), move |ctx| {
            dyn_log(&s1, &ctx, "subscription");
            SubscriptionFieldFuture::new(async move { Ok(futures_util::stream::iter(vec![Ok(Value::from(1)), Ok(Value::from(2))])) })
        }))
        .field(SubscriptionField::new("widgetStream", TypeRef::named("Widget"), move |ctx| {
            dyn_log(&s2, &ctx, "subscription");
            SubscriptionFieldFuture::new(async move { Ok(futures_util::stream::iter(vec![Ok(FieldValue::owned_any(W("w5".into())))])) })
        }));
    let e = log.clone();
    let b = Schema::build("Query", Some("Mutation"), Some("Subscription"))
        .register(widget)
        .register(omega)
        .register(psi)
        .register(query)
        .register(mutation)
        .register(subscription)
        .enable_federation()
        .entity_resolver(move |ctx| {
            dyn_log(&e, &ctx, "entity");
            FieldFuture::new(async move {
                let reps = ctx.args.try_get("representations")?.list()?;
                let mut values = vec![];
                for item in reps.iter() {
                    let id = item.object()?.try_get("id")?.string()?.to_string();
                    values.push(FieldValue::owned_any(W(id)).with_type("Widget"));
                }
                Ok(Some(FieldValue::list(values)))
            })
        });
    match mode {
        Mode::Enabled => b,
        Mode::Disabled => b.disable_introspection(),
        Mode::Only => b.introspection_only(),
    }
    .finish()
    .expect("dynamic federation schema")
}

// ------------------------------------------------------------------------------------------------------------
// the matrix

#[derive(Clone, Copy, PartialEq, Eq, Debug)]
enum Flavour {
    Static,
    Dynamic,
}

#[derive(Clone, Copy, Debug)]
struct Cell {
    schema: Mode,
    request: Mode,
    flavour: Flavour,
    op: OpKind,
}
impl Cell {
    fn disabled(&self) -> bool {
        self.schema == Mode::Disabled || self.request == Mode::Disabled
    }
    fn only(&self) -> bool {
        self.schema == Mode::Only || self.request == Mode::Only
    }
    fn name(&self) -> String {
        format!("{:?}-schema:{:?}-request:{:?}-{}", self.flavour, self.schema, self.request, self.op.kw()).to_lowercase()
    }
}

struct Servers {
    log: Log,
    st: Vec<fed::S>,
    dy: Vec<dynamic::Schema>,
}
impl Servers {
    fn new() -> Servers {
        let log: Log = Default::default();
        Servers { st: MODES.iter().map(|m| static_schema(*m, &log)).collect(), dy: MODES.iter().map(|m| dynamic_schema(*m, &log)).collect(), log }
    }
    /// all responses to the request (one for `execute`, every item of `execute_stream`) and the resolver log
    fn run(&self, cell: Cell, text: &str, via_stream: bool) -> (Vec<Response>, Vec<String>) {
        let req = Request::new(text);
        let req = match cell.request {
            Mode::Enabled => req,
            Mode::Disabled => req.disable_introspection(),
            Mode::Only => req.only_introspection(),
        };
        self.log.lock().unwrap().clear();
        let i = MODES.iter().position(|m| *m == cell.schema).unwrap();
        let resps = match (cell.flavour, via_stream) {
            (Flavour::Static, false) => vec![vcore::det::block_on(self.st[i].execute(req))],
            (Flavour::Static, true) => vcore::det::block_on(self.st[i].execute_stream(req).collect::<Vec<_>>()),
            (Flavour::Dynamic, false) => vec![vcore::det::block_on(self.dy[i].execute(req))],
            (Flavour::Dynamic, true) => vcore::det::block_on(self.dy[i].execute_stream(req).collect::<Vec<_>>()),
        };
        let log = std::mem::take(&mut *self.log.lock().unwrap());
        (resps, log)
    }
}

// ------------------------------------------------------------------------------------------------------------
// documents

#[derive(Clone, Copy)]
struct Allow {
    /// `_service { sdl }`
    service: bool,
    /// `_entities(...)`
    entities: bool,
    /// `__typename` directly on the operation's root
    root_typename: bool,
}

struct GenDoc {
    doc: Doc,
    /// root response keys of `_service` / `_entities` selections
    service_keys: Vec<String>,
    entity_keys: Vec<String>,
    /// selects `__schema` / `__type` (a schema that has introspection disabled may reject those at validation)
    introspects: bool,
    meta_fields: usize,
    ordinary_fields: usize,
    typenames: usize,
    fragments: usize,
}

struct G {
    next: u32,
    out: GenDoc,
    frags: Vec<FragDef>,
}

impl G {
    /// a response key unique in the document: the field's own name where still free at this level, else an alias
    fn keyed(&mut self, s: &mut dyn Src, used: &mut Vec<String>, name: &str) -> Field {
        let mut f = Field::new(name);
        if used.iter().any(|u| u == name) || s.chance(1, 3) {
            self.next += 1;
            f.alias = Some(Name::new(format!("k{}", self.next)));
        }
        used.push(f.key().to_string());
        f
    }
    fn typename(&mut self, s: &mut dyn Src, used: &mut Vec<String>) -> Selection {
        self.out.typenames += 1;
        Selection::Field(self.keyed(s, used, "__typename"))
    }
    fn leafs(&mut self, s: &mut dyn Src, names: &[&str], typename: bool) -> SelSet {
        let mut used = vec![];
        let mut items = vec![];
        for n in names {
            if s.chance(2, 3) {
                items.push(Selection::Field(self.keyed(s, &mut used, n)));
            }
        }
        if typename && (items.is_empty() || s.chance(1, 2)) {
            items.push(self.typename(s, &mut used));
        }
        if items.is_empty() {
            items.push(Selection::Field(self.keyed(s, &mut used, names[0])));
        }
        SelSet::new(items)
    }
    fn widget_sel(&mut self, s: &mut dyn Src) -> SelSet {
        let inner = self.leafs(s, &["id", "gauge"], true);
        if s.chance(1, 4) {
            self.out.fragments += 1;
            return SelSet::new(vec![Selection::Inline(Inline { pos: Pos::default(), cond: Some(Name::new("Widget")), cond_pos: Pos::default(), directives: vec![], sel: inner })]);
        }
        inner
    }
    fn root_field(&mut self, s: &mut dyn Src, op: OpKind, allow: &Allow, used: &mut Vec<String>) -> Option<Selection> {
        let str_val = |t: &str| PVal::new(Val::Str(t.to_string()));
        match op {
            OpKind::Query => {
                let k = s.weighted(&[3, 2, 2, 2, 3, 3, 3, 3]);
                let f = match k {
                    0 if allow.root_typename => return Some(self.typename(s, used)),
                    0 | 1 => {
                        self.out.ordinary_fields += 1;
                        self.keyed(s, used, "count")
                    }
                    2 => {
                        self.out.ordinary_fields += 1;
                        let mut f = self.keyed(s, used, "widget");
                        if s.bool() {
                            f.args.push((Name::new("id"), str_val("w3")));
                        }
                        f.sel = self.widget_sel(s);
                        f
                    }
                    3 => {
                        self.out.ordinary_fields += 1;
                        let mut f = self.keyed(s, used, "widgets");
                        f.sel = self.widget_sel(s);
                        f
                    }
                    4 => {
                        self.out.introspects = true;
                        self.out.meta_fields += 1;
                        let mut f = self.keyed(s, used, "__schema");
                        let mut types = Field::new("types");
                        types.sel = SelSet::new(vec![Selection::Field(Field::new("name"))]);
                        if s.chance(1, 3) {
                            types.sel.items.push(self.typename(s, &mut vec![]));
                        }
                        let mut items = vec![Selection::Field(types)];
                        if s.chance(1, 3) {
                            let mut q = Field::new("queryType");
                            q.sel = SelSet::new(vec![Selection::Field(Field::new("name"))]);
                            items.push(Selection::Field(q));
                        }
                        if s.chance(1, 3) {
                            items.push(self.typename(s, &mut vec![]));
                        }
                        f.sel = SelSet::new(items);
                        f
                    }
                    5 => {
                        self.out.introspects = true;
                        self.out.meta_fields += 1;
                        let mut f = self.keyed(s, used, "__type");
                        let (name, sub) = *vcore::gens::pick(s, &[("Query", "fields"), ("Widget", "fields"), ("SentinelEnumOmega", "enumValues"), ("SentinelInputPsi", "inputFields"), ("Mutation", "fields"), ("Nope", "fields")]);
                        f.args.push((Name::new("name"), str_val(name)));
                        let mut inner = Field::new(sub);
                        inner.sel = SelSet::new(vec![Selection::Field(Field::new("name"))]);
                        let mut items = vec![Selection::Field(Field::new("name")), Selection::Field(inner)];
                        if s.chance(1, 3) {
                            items.push(self.typename(s, &mut vec![]));
                        }
                        f.sel = SelSet::new(items);
                        f
                    }
                    6 if allow.service => {
                        self.out.meta_fields += 1;
                        let mut f = self.keyed(s, used, "_service");
                        self.out.service_keys.push(f.key().to_string());
                        let mut items = vec![Selection::Field(Field::new("sdl"))];
                        if s.chance(1, 3) {
                            items.push(self.typename(s, &mut vec![]));
                        }
                        f.sel = SelSet::new(items);
                        f
                    }
                    7 if allow.entities => {
                        self.out.meta_fields += 1;
                        let mut f = self.keyed(s, used, "_entities");
                        self.out.entity_keys.push(f.key().to_string());
                        let n = 1 + s.choose(2);
                        let reps = (0..n).map(|i| PVal::new(Val::Obj(vec![(Name::new("__typename"), str_val("Widget")), (Name::new("id"), str_val(&format!("e{}", i)))]))).collect();
                        f.args.push((Name::new("representations"), PVal::new(Val::List(reps))));
                        let mut items = vec![];
                        if s.bool() {
                            items.push(self.typename(s, &mut vec![]));
                        }
                        let on_widget = self.leafs(s, &["id", "gauge"], true);
                        items.push(Selection::Inline(Inline { pos: Pos::default(), cond: Some(Name::new("Widget")), cond_pos: Pos::default(), directives: vec![], sel: on_widget }));
                        f.sel = SelSet::new(items);
                        f
                    }
                    _ => return None,
                };
                Some(Selection::Field(f))
            }
            OpKind::Mutation => {
                let f = match s.weighted(&[2, 3, 3]) {
                    0 if allow.root_typename => return Some(self.typename(s, used)),
                    0 | 1 => {
                        let mut f = self.keyed(s, used, "bump");
                        if s.bool() {
                            f.args.push((Name::new("by"), PVal::new(Val::Int(s.range(0, 9).to_string()))));
                        }
                        f
                    }
                    _ => {
                        let mut f = self.keyed(s, used, "makeWidget");
                        f.sel = self.widget_sel(s);
                        f
                    }
                };
                self.out.ordinary_fields += 1;
                Some(Selection::Field(f))
            }
            OpKind::Subscription => {
                self.out.ordinary_fields += 1;
                let mut f = if s.bool() {
                    let mut f = Field::new("widgetStream");
                    f.sel = self.widget_sel(s);
                    f
                } else {
                    Field::new("ticks")
                };
                if s.chance(1, 3) {
                    f.alias = Some(Name::new("k1"));
                }
                Some(Selection::Field(f))
            }
        }
    }
    /// selections on the root type; `used` = response keys already taken at the root level
    fn root_items(&mut self, s: &mut dyn Src, op: OpKind, allow: &Allow, used: &mut Vec<String>, depth: usize) -> Vec<Selection> {
        let root = root_name(op);
        let n = 1 + s.choose(4);
        let mut items = vec![];
        for _ in 0..n {
            if depth < 2 && s.chance(1, 5) {
                let inner = self.root_items(s, op, allow, used, depth + 1);
                self.out.fragments += 1;
                if s.bool() {
                    let cond = if s.chance(1, 3) { None } else { Some(Name::new(root)) };
                    items.push(Selection::Inline(Inline { pos: Pos::default(), cond, cond_pos: Pos::default(), directives: vec![], sel: SelSet::new(inner) }));
                } else {
                    let name = format!("F{}", self.frags.len() + 1);
                    self.frags.push(FragDef { pos: Pos::default(), name: Name::new(name.clone()), cond: Name::new(root), cond_pos: Pos::default(), directives: vec![], sel: SelSet::new(inner) });
                    items.push(Selection::Spread(Spread { pos: Pos::default(), name: Name::new(name), directives: vec![] }));
                }
                continue;
            }
            if let Some(x) = self.root_field(s, op, allow, used) {
                items.push(x);
            }
        }
        if items.is_empty() {
            // the simplest selection of the root
            let f = match op {
                OpKind::Query => self.keyed(s, used, "count"),
                OpKind::Mutation => self.keyed(s, used, "bump"),
                OpKind::Subscription => Field::new("ticks"),
            };
            self.out.ordinary_fields += 1;
            items.push(Selection::Field(f));
        }
        items
    }
}

fn root_name(op: OpKind) -> &'static str {
    match op {
        OpKind::Query => "Query",
        OpKind::Mutation => "Mutation",
        OpKind::Subscription => "Subscription",
    }
}

fn gen_doc(s: &mut dyn Src, op: OpKind, allow: &Allow) -> GenDoc {
    let mut g = G {
        next: 0,
        out: GenDoc { doc: Doc::default(), service_keys: vec![], entity_keys: vec![], introspects: false, meta_fields: 0, ordinary_fields: 0, typenames: 0, fragments: 0 },
        frags: vec![],
    };
    let mut used = vec![];
    let items = if op == OpKind::Subscription {
        // exactly one root field, and no introspection field, is what the specification allows here
        vec![g.root_field(s, op, allow, &mut used).unwrap()]
    } else {
        g.root_items(s, op, allow, &mut used, 0)
    };
    let explicit = op != OpKind::Query || s.bool();
    let name = if explicit && s.chance(1, 3) { Some(Name::new("Op")) } else { None };
    let mut defs = vec![Def::Op(OpDef { pos: Pos::default(), explicit, kind: op, name, vars: vec![], directives: vec![], sel: SelSet::new(items) })];
    defs.extend(g.frags.drain(..).map(Def::Frag));
    g.out.doc = Doc { defs };
    g.out
}

// ------------------------------------------------------------------------------------------------------------
// oracle

fn child_type(parent: &str, field: &str) -> &'static str {
    match (parent, field) {
        (_, "widget") | (_, "widgets") | (_, "makeWidget") | (_, "widgetStream") | (_, "_entities") => "Widget",
        (_, "__schema") => "__Schema",
        (_, "__type") | ("__Schema", _) => "__Type",
        ("__Type", "fields") => "__Field",
        ("__Type", "enumValues") => "__EnumValue",
        ("__Type", "inputFields") => "__InputValue",
        (_, "_service") => "_Service",
        _ => "?",
    }
}

/// Wherever an object is present in the data, every `__typename` selected on it is present and names its type.
fn check_typenames(doc: &Doc, sel: &SelSet, parent: &str, data: &J, bad: &mut Vec<String>, seen: &mut usize) {
    for item in &sel.items {
        match item {
            Selection::Field(f) if f.name.s == "__typename" => match data.get(f.key()) {
                Some(J::String(t)) if t == parent => *seen += 1,
                other => bad.push(format!("{}: __typename of a {} is {}", f.key(), parent, other.map_or("absent".to_string(), |o| o.to_string()))),
            },
            Selection::Field(f) if !f.sel.items.is_empty() => {
                let ct = child_type(parent, &f.name.s);
                match data.get(f.key()) {
                    Some(o @ J::Object(_)) => check_typenames(doc, &f.sel, ct, o, bad, seen),
                    Some(J::Array(a)) => a.iter().filter(|x| x.is_object()).for_each(|x| check_typenames(doc, &f.sel, ct, x, bad, seen)),
                    _ => {}
                }
            }
            Selection::Field(_) => {}
            Selection::Inline(i) => {
                if i.cond.as_ref().map_or(true, |c| c.s == parent) {
                    check_typenames(doc, &i.sel, parent, data, bad, seen)
                }
            }
            Selection::Spread(sp) => {
                if let Some(fr) = doc.frag(&sp.name.s) {
                    if fr.cond.s == parent {
                        check_typenames(doc, &fr.sel, parent, data, bad, seen)
                    }
                }
            }
        }
    }
}

enum Dev {
    /// schema metadata in a response although introspection is disabled: root keys whose value carries it
    Leak { keys: Vec<String>, in_errors: bool },
    /// resolvers ran although the schema / request is introspection-only
    Ran(Vec<String>),
    Typename(Vec<String>),
    NoData(String),
}

impl Dev {
    fn show(&self) -> String {
        match self {
            Dev::Leak { keys, in_errors } => format!("schema metadata in the response although introspection is disabled (under data keys {:?}{})", keys, if *in_errors { ", and in errors" } else { "" }),
            Dev::Ran(log) => format!("resolvers ran although introspection-only: {:?}", log),
            Dev::Typename(bad) => bad.join("; "),
            Dev::NoData(why) => why.clone(),
        }
    }
}

struct Outcome {
    devs: Vec<Dev>,
    metadata_seen: bool,
    resolvers_ran: bool,
    typenames_seen: usize,
    rejected: bool,
}

fn has_sentinel(j: &J) -> bool {
    serde_json::to_string(j).unwrap().to_lowercase().contains(SENTINEL)
}

fn evaluate(cell: Cell, g: &GenDoc, resps: &[Response], log: &[String]) -> Outcome {
    let mut out = Outcome { devs: vec![], metadata_seen: false, resolvers_ran: !log.is_empty(), typenames_seen: 0, rejected: false };
    let op = g.doc.ops().next().unwrap();
    for r in resps {
        let whole = serde_json::to_value(r).unwrap();
        let data = whole.get("data").cloned().unwrap_or(J::Null);
        let errors = whole.get("errors").cloned().unwrap_or(J::Null);
        if has_sentinel(&whole) {
            out.metadata_seen = true;
            if cell.disabled() {
                let keys = data.as_object().map(|o| o.iter().filter(|(_, v)| has_sentinel(v)).map(|(k, _)| k.clone()).collect()).unwrap_or_default();
                out.devs.push(Dev::Leak { keys, in_errors: has_sentinel(&errors) });
            }
        }
        if data.is_object() {
            let mut bad = vec![];
            check_typenames(&g.doc, &op.sel, root_name(cell.op), &data, &mut bad, &mut out.typenames_seen);
            if !bad.is_empty() {
                out.devs.push(Dev::Typename(bad));
            }
        } else if cell.op != OpKind::Subscription {
            // a schema without introspection may reject `__schema` / `__type` as unknown fields: allowed
            if cell.schema == Mode::Disabled && g.introspects {
                out.rejected = true;
            } else {
                out.devs.push(Dev::NoData(format!("no data: {}", errors)));
            }
        }
    }
    if cell.op != OpKind::Subscription && resps.len() != 1 {
        out.devs.push(Dev::NoData(format!("{} responses to one query / mutation", resps.len())));
    }
    if cell.only() && !log.is_empty() {
        out.devs.push(Dev::Ran(log.to_vec()));
    }
    out
}

fn path_root(entry: &str) -> &str {
    entry.split(' ').nth(1).unwrap_or("").split('.').next().unwrap_or("")
}

/// which open finding predicts this deviation exactly
fn attribute(cell: Cell, g: &GenDoc, d: &Dev, open: &[&'static str]) -> Option<&'static str> {
    let is = |f: &'static str| open.contains(&f);
    match d {
        // C19-F1: static schemas answer `_service { sdl }` whatever the introspection mode
        Dev::Leak { keys, in_errors: false } if is("C19-F1") && cell.flavour == Flavour::Static && !cell.only() && !keys.is_empty() && keys.iter().all(|k| g.service_keys.contains(k)) => Some("C19-F1"),
        // C19-F2: dynamic schemas run the entity resolver (and the entity's field resolvers) in introspection-only mode
        Dev::Ran(entries) if is("C19-F2") && cell.flavour == Flavour::Dynamic && !cell.disabled() && cell.op == OpKind::Query && entries.iter().all(|e| g.entity_keys.iter().any(|k| k == path_root(e))) => Some("C19-F2"),
        // C19-F3: dynamic schemas run subscription resolvers in introspection-only mode
        Dev::Ran(_) if is("C19-F3") && cell.flavour == Flavour::Dynamic && cell.op == OpKind::Subscription => Some("C19-F3"),
        // C19-F4: static schemas execute mutations of an introspection-only schema / request on `EmptyMutation`
        Dev::Typename(bad) if is("C19-F4") && cell.flavour == Flavour::Static && cell.op == OpKind::Mutation && cell.only() && bad.iter().all(|b| b.ends_with("__typename of a Mutation is \"EmptyMutation\"") || b.ends_with("__typename of a Mutation is absent")) => Some("C19-F4"),
        _ => None,
    }
}

fn case_for(servers: &Servers, cell: Cell, s: &mut dyn Src, allow: &Allow, open: &[&'static str]) -> Case {
    let mut g = gen_doc(s, cell.op, allow);
    let text = print_plain(&mut g.doc);
    let via_stream = cell.op == OpKind::Subscription || s.bool();
    let (resps, log) = servers.run(cell, &text, via_stream);
    let out = evaluate(cell, &g, &resps, &log);
    let rendered = format!("{:?} schema, schema-level {:?}, request-level {:?}, via {}: {}", cell.flavour, cell.schema, cell.request, if via_stream { "execute_stream" } else { "execute" }, text);
    let mut ids: Vec<String> = vec![];
    let mut unexplained = vec![];
    for d in &out.devs {
        match attribute(cell, &g, d, open) {
            Some(id) => {
                if !ids.iter().any(|i| i == id) {
                    ids.push(id.to_string())
                }
            }
            None => unexplained.push(d.show()),
        }
    }
    let c = if !unexplained.is_empty() {
        Case::fail(rendered, format!("{}; responses {}", unexplained.join("; "), vcore::drive::truncate(&serde_json::to_string(&resps).unwrap(), 1500)))
    } else if !ids.is_empty() {
        Case::known(rendered, ids)
    } else {
        Case::pass(rendered)
    };
    c.nontrivial(cell.disabled() && g.meta_fields > 0 || cell.only() && g.ordinary_fields + g.entity_keys.len() > 0 || g.typenames > 0)
        .class_if(g.meta_fields > 0 && g.ordinary_fields > 0, "mixes-metadata-and-ordinary-fields")
        .class_if(out.metadata_seen, "metadata-in-response")
        .class_if(out.resolvers_ran, "resolvers-ran")
        .class_if(out.typenames_seen > 0, "typename-resolved")
        .class_if(out.rejected, "rejected-at-validation")
        .class_if(g.fragments > 0, "fragments")
        .class_if(!g.service_keys.is_empty(), "_service")
        .class_if(!g.entity_keys.is_empty(), "_entities")
        .class_if(cell.disabled() && g.meta_fields > 0, "disabled-and-asks-for-metadata")
        .class_if(cell.only() && g.ordinary_fields + g.entity_keys.len() > 0, "only-and-asks-for-resolvers")
}

pub fn run(ctx: &mut Ctx) {
    ctx.rule = "every cell of {schema-level enabled/disabled/introspection-only} x {request-level default/disabled/only} x {static derive schema with a federation entity, dynamic schema \
                with enable_federation + entity resolver} x {query, mutation, subscription} is visited; per cell random documents mix __schema, __type, __typename (root and nested), \
                _service{sdl}, _entities and ordinary fields with aliases and inline / named fragments; queries and mutations go through execute or execute_stream, subscriptions \
                through execute_stream. Non-trivial = a disabled cell whose document asks for metadata, an introspection-only cell whose document asks for a resolver, or a document \
                selecting __typename; distinct by (cell, path, document)"
        .into();
    ctx.assume("schema metadata is recognised by sentinel names (types, fields, arguments, enum values, one description, all containing 'sentinel') that exist only in the schemas: documents never select them and resolvers never return them");
    ctx.assume("a schema built with introspection disabled may reject documents that select __schema / __type as invalid; such a response only has to be free of metadata");
    ctx.assume("__typename directly on a subscription root is not generated (the specification forbids introspection fields as subscription root fields)");
    ctx.assume("all user fields are nullable, so that a field that is not resolved in introspection-only mode cannot null the whole response");
    ctx.assume("what an introspection-only schema answers for ordinary fields (null, error, omission) and whether federation fields still work while introspection is disabled are not checked: the statement only bounds metadata, resolver invocations and __typename");

    let servers = Servers::new();
    let all: [&'static str; 4] = ["C19-F1", "C19-F2", "C19-F3", "C19-F4"];
    let open: Vec<&'static str> = all.into_iter().filter(|f| ctx.open(f)).collect();
    let is = |f: &str| open.iter().any(|o| *o == f);
    let tier = ctx.tier;
    let per_cell = |op: OpKind| match op {
        // few distinct subscription documents exist (one root field)
        OpKind::Subscription => tier.pick(300u32, 3_000),
        OpKind::Mutation => tier.pick(3_000, 100_000),
        OpKind::Query => tier.pick(8_000, 300_000),
    };
    let mut cells = 0;
    for flavour in [Flavour::Static, Flavour::Dynamic] {
        for schema in MODES {
            for request in MODES {
                for op in [OpKind::Query, OpKind::Mutation, OpKind::Subscription] {
                    let cell = Cell { schema, request, flavour, op };
                    let n = per_cell(op);
                    cells += 1;
                    // constructs of the open findings are kept out of the main stream of the cells they affect …
                    let f1 = is("C19-F1") && flavour == Flavour::Static && cell.disabled() && op == OpKind::Query;
                    let f2 = is("C19-F2") && flavour == Flavour::Dynamic && cell.only() && op == OpKind::Query;
                    let f3 = is("C19-F3") && flavour == Flavour::Dynamic && cell.only() && op == OpKind::Subscription;
                    let f4 = is("C19-F4") && flavour == Flavour::Static && cell.only() && op == OpKind::Mutation;
                    let allow = Allow { service: !f1, entities: !f2, root_typename: !f4 };
                    for (f, id) in [(f1, "C19-F1"), (f2, "C19-F2"), (f3, "C19-F3"), (f4, "C19-F4")] {
                        if f {
                            ctx.excluded(id);
                        }
                    }
                    if !f3 {
                        ctx.stream(&cell.name(), n, 80, |s| case_for(&servers, cell, s, &allow, &[]));
                    }
                    // … and exercised by a probe stream that attributes exactly the predicted deviations
                    if f1 || f2 || f3 || f4 {
                        let everything = Allow { service: true, entities: true, root_typename: true };
                        ctx.stream(&format!("probe-{}", cell.name()), n / 2, 80, |s| case_for(&servers, cell, s, &everything, &open));
                    }
                    if ctx.violations() > 0 {
                        return;
                    }
                }
            }
        }
    }
    ctx.exhaustive = Some(true);
    ctx.note("matrix_cells_visited", serde_json::json!(cells));
    ctx.floor("disabled-and-asks-for-metadata", 15_000);
    ctx.floor("only-and-asks-for-resolvers", 20_000);
    ctx.floor("metadata-in-response", 9_000);
    ctx.floor("resolvers-ran", 15_000);
    ctx.floor("typename-resolved", 30_000);
    ctx.floor("_service", 9_000);
    ctx.floor("_entities", 9_000);
    ctx.floor("fragments", 20_000);
}
