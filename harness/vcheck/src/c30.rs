//! C30 — extensions are transparent and run their hooks in lifecycle order.
//!
//! Every request is executed twice on the same world: on a schema without extensions and on the same schema with a
//! stack of 1–3 recording pass-through extensions (each hook logs enter, delegates to `next`, logs exit).
//! Oracle 1 (transparency): both responses are equal (data incl. key order, errors as a multiset, `extensions`,
//! cache policy, HTTP headers). Oracle 2 (trace grammar): `request[ prepare_request parse_query validation
//! execute[ resolve* ] ]`, every hook of extension i+1 nested directly (and exactly once) inside the same hook of
//! extension i, the first registered extension outermost, the lifecycle cut where the request stops, and
//! `#resolve` = executed fields + completed list items of the reference executor.
use crate::execcmp::*;
use async_graphql::extensions::{
    Extension, ExtensionContext, ExtensionFactory, NextExecute, NextParseQuery, NextPrepareRequest, NextRequest, NextResolve, NextValidation, ResolveInfo,
};
use async_graphql::parser::types::ExecutableDocument;
use async_graphql::{Request, Response, ServerError, ServerResult, ValidationResult, Value, Variables};
use std::sync::{Arc, Mutex};
use vcore::{Case, Ctx, Src};
use vgql::ast::*;
use vgql::gensch::*;
use vgql::gentyped::*;
use vgql::print::print_plain;
use vgql::refexec::{execute, Quirks, RefOut};
use vgql::sch::Sch;
use vgql::world::*;
use vschemas::dynbuild::build_dynamic;
use vschemas::rt::Rt;
use vschemas::z::{build_z, z_sch, ZSchema};

// ---------------------------------------------------------------------------------------------------------------
// recording pass-through extensions

#[derive(Clone, Copy, Debug, PartialEq, Eq)]
enum Hook {
    Request,
    PrepareRequest,
    ParseQuery,
    Validation,
    Execute,
    Resolve,
}
impl Hook {
    fn short(self) -> &'static str {
        match self {
            Hook::Request => "request",
            Hook::PrepareRequest => "prepare_request",
            Hook::ParseQuery => "parse_query",
            Hook::Validation => "validation",
            Hook::Execute => "execute",
            Hook::Resolve => "resolve",
        }
    }
}

#[derive(Clone, Debug, PartialEq)]
struct Ev {
    ext: usize,
    hook: Hook,
    enter: bool,
    /// `resolve` only: the hook was entered for a `__typename` field
    typename: bool,
}

type Log = Arc<Mutex<Vec<Ev>>>;

struct RecFactory {
    idx: usize,
    log: Log,
}
impl ExtensionFactory for RecFactory {
    fn create(&self) -> Arc<dyn Extension> {
        Arc::new(Rec { idx: self.idx, log: self.log.clone() })
    }
}
struct Rec {
    idx: usize,
    log: Log,
}
impl Rec {
    fn ev(&self, hook: Hook, enter: bool, typename: bool) {
        self.log.lock().unwrap().push(Ev { ext: self.idx, hook, enter, typename });
    }
}

#[async_trait::async_trait]
impl Extension for Rec {
    async fn request(&self, ctx: &ExtensionContext<'_>, next: NextRequest<'_>) -> Response {
        self.ev(Hook::Request, true, false);
        let r = next.run(ctx).await;
        self.ev(Hook::Request, false, false);
        r
    }
    async fn prepare_request(&self, ctx: &ExtensionContext<'_>, request: Request, next: NextPrepareRequest<'_>) -> ServerResult<Request> {
        self.ev(Hook::PrepareRequest, true, false);
        let r = next.run(ctx, request).await;
        self.ev(Hook::PrepareRequest, false, false);
        r
    }
    async fn parse_query(&self, ctx: &ExtensionContext<'_>, query: &str, variables: &Variables, next: NextParseQuery<'_>) -> ServerResult<ExecutableDocument> {
        self.ev(Hook::ParseQuery, true, false);
        let r = next.run(ctx, query, variables).await;
        self.ev(Hook::ParseQuery, false, false);
        r
    }
    async fn validation(&self, ctx: &ExtensionContext<'_>, next: NextValidation<'_>) -> Result<ValidationResult, Vec<ServerError>> {
        self.ev(Hook::Validation, true, false);
        let r = next.run(ctx).await;
        self.ev(Hook::Validation, false, false);
        r
    }
    async fn execute(&self, ctx: &ExtensionContext<'_>, operation_name: Option<&str>, next: NextExecute<'_>) -> Response {
        self.ev(Hook::Execute, true, false);
        let r = next.run(ctx, operation_name).await;
        self.ev(Hook::Execute, false, false);
        r
    }
    async fn resolve(&self, ctx: &ExtensionContext<'_>, info: ResolveInfo<'_>, next: NextResolve<'_>) -> ServerResult<Option<Value>> {
        let typename = info.name == "__typename";
        self.ev(Hook::Resolve, true, typename);
        let r = next.run(ctx, info).await;
        self.ev(Hook::Resolve, false, typename);
        r
    }
}

fn show_trace(evs: &[Ev]) -> String {
    let mut s = String::new();
    for e in evs.iter().take(120) {
        s.push_str(&format!("{}{}{} ", if e.enter { "+" } else { "-" }, e.ext, e.hook.short()));
    }
    if evs.len() > 120 {
        s.push_str(&format!("… ({} events)", evs.len()));
    }
    s
}

struct Trace {
    /// lifecycle hooks seen inside `request`, in order
    stages: Vec<Hook>,
    /// `resolve` invocations (per extension — the nesting check makes the count equal for all of them)
    resolves: usize,
    typename_resolves: usize,
}

/// The trace grammar. `n` = number of registered extensions; extension 0 was registered first.
fn check_trace(n: usize, evs: &[Ev]) -> Result<Trace, String> {
    let mut t = Trace { stages: vec![], resolves: 0, typename_resolves: 0 };
    if n == 0 {
        return if evs.is_empty() { Ok(t) } else { Err("hooks ran although no extension is registered".into()) };
    }
    // stack of open hooks: (extension, hook, number of times it delegated to the next extension's same hook)
    let mut stack: Vec<(usize, Hook, usize)> = vec![];
    let mut requests = 0;
    for (i, e) in evs.iter().enumerate() {
        let at = |what: &str| format!("event {} ({}{} of extension {}): {}", i, if e.enter { "enter " } else { "exit " }, e.hook.short(), e.ext, what);
        if e.ext >= n {
            return Err(at("extension index out of range"));
        }
        if e.enter {
            if e.ext == 0 {
                let top = stack.last().map(|x| (x.0, x.1));
                let ok = match e.hook {
                    Hook::Request => stack.is_empty(),
                    Hook::PrepareRequest | Hook::ParseQuery | Hook::Validation | Hook::Execute => top == Some((n - 1, Hook::Request)),
                    Hook::Resolve => top == Some((n - 1, Hook::Execute)) || top == Some((n - 1, Hook::Resolve)),
                };
                if !ok {
                    return Err(at("the first registered extension's hook does not start where the grammar allows it (request at top level; prepare_request, parse_query, validation, execute directly inside the innermost request; resolve inside the innermost execute or resolve)"));
                }
                match e.hook {
                    Hook::Request => requests += 1,
                    Hook::Resolve => {
                        t.resolves += 1;
                        if e.typename {
                            t.typename_resolves += 1;
                        }
                    }
                    h => t.stages.push(h),
                }
            } else {
                match stack.last_mut() {
                    Some(top) if top.0 == e.ext - 1 && top.1 == e.hook => {
                        if top.2 != 0 {
                            return Err(at("the enclosing extension's hook reached this extension a second time"));
                        }
                        top.2 += 1;
                    }
                    _ => return Err(at("not nested directly inside the same hook of the extension registered before it")),
                }
            }
            stack.push((e.ext, e.hook, 0));
        } else {
            match stack.pop() {
                Some((x, h, delegated)) if x == e.ext && h == e.hook => {
                    if x + 1 < n && delegated != 1 {
                        return Err(at("hook finished without the next extension's hook having run inside it"));
                    }
                }
                _ => return Err(at("exit does not mirror the enters (hooks are not properly nested)")),
            }
        }
    }
    if !stack.is_empty() {
        return Err("trace ends with hooks still open".into());
    }
    if requests != 1 {
        return Err(format!("the request hook ran {} times", requests));
    }
    Ok(t)
}

// ---------------------------------------------------------------------------------------------------------------
// requests: valid documents and four kinds of damaged ones

#[derive(Clone, Copy, Debug, PartialEq)]
enum Kind {
    Valid,
    Syntax,
    UnknownField,
    UnknownOperation,
    MissingVariable,
}
impl Kind {
    fn label(self) -> &'static str {
        match self {
            Kind::Valid => "valid",
            Kind::Syntax => "syntax-error",
            Kind::UnknownField => "unknown-field",
            Kind::UnknownOperation => "unknown-operation-name",
            Kind::MissingVariable => "missing-required-variable",
        }
    }
}

struct Req {
    kind: Kind,
    text: String,
    td: TypedDoc,
    op_name: Option<String>,
}

/// all selection sets of the document, addressed by a walk: push an unknown field into the k-th one
fn add_unknown_field(doc: &mut Doc, mut k: usize) {
    fn walk(s: &mut SelSet, k: &mut usize, done: &mut bool) {
        if *done {
            return;
        }
        if *k == 0 {
            s.items.push(Selection::Field(Field::new("zzNoSuchField")));
            *done = true;
            return;
        }
        *k -= 1;
        for it in &mut s.items {
            match it {
                Selection::Field(f) if !f.sel.items.is_empty() => walk(&mut f.sel, k, done),
                Selection::Inline(i) => walk(&mut i.sel, k, done),
                _ => {}
            }
        }
    }
    let mut done = false;
    for d in &mut doc.defs {
        match d {
            Def::Op(o) => walk(&mut o.sel, &mut k, &mut done),
            Def::Frag(f) => walk(&mut f.sel, &mut k, &mut done),
        }
    }
    if !done {
        if let Some(Def::Op(o)) = doc.defs.first_mut() {
            o.sel.items.push(Selection::Field(Field::new("zzNoSuchField")));
        }
    }
}

fn gen_req(sch: &Sch, s: &mut dyn Src, tcfg: &TypedCfg) -> Req {
    // kind and damage position are drawn before the document so that an exhausted choice vector does not bias them
    let kind = match s.weighted(&[6, 1, 1, 1, 1]) {
        0 => Kind::Valid,
        1 => Kind::Syntax,
        2 => Kind::UnknownField,
        3 => Kind::UnknownOperation,
        _ => Kind::MissingVariable,
    };
    let where_ = s.choose(6);
    let mut td = gen_typed_doc(sch, s, tcfg);
    let mut op_name = td.op_name.clone();
    match kind {
        Kind::UnknownField => add_unknown_field(&mut td.doc, where_),
        Kind::MissingVariable => {
            if let Some(Def::Op(o)) = td.doc.defs.first_mut() {
                o.explicit = true;
                o.vars.push(VarDef { pos: Pos::default(), name: Name::new("zzReq"), ty: PTy { pos: Pos::default(), ty: Ty::nn(Ty::named("Boolean")) }, default: None, directives: vec![] });
                let mut f = Field::new("__typename");
                f.alias = Some(Name::new("zz"));
                f.directives = vec![Directive::new("include", vec![("if", Val::Var("zzReq".into()))])];
                o.sel.items.push(Selection::Field(f));
            }
        }
        Kind::UnknownOperation => op_name = Some("ZzNoSuchOperation".into()),
        _ => {}
    }
    let mut text = print_plain(&mut td.doc);
    if kind == Kind::Syntax {
        // damage that cannot be absorbed by a string or a comment: the braces of the document no longer balance
        text = match where_ % 4 {
            0 => format!("{} }}", text),
            1 => format!("}} {}", text),
            2 => format!("{} {{", text),
            _ => match text.rfind('}') {
                Some(i) => text[..i].to_string(),
                None => String::new(),
            },
        };
    }
    Req { kind, text, td, op_name }
}

fn ag_request(r: &Req) -> Request {
    request(&r.text, &r.td.vars, r.op_name.as_deref())
}

// ---------------------------------------------------------------------------------------------------------------
// oracles

fn error_multiset(r: &Response) -> Vec<String> {
    let mut v: Vec<String> = r.errors.iter().map(|e| serde_json::to_string(e).unwrap_or_else(|_| format!("{:?}", e))).collect();
    v.sort();
    v
}

fn transparent(base: &Response, with: &Response) -> Result<(), String> {
    let (a, b) = (serde_json::to_string(&base.data).unwrap(), serde_json::to_string(&with.data).unwrap());
    if a != b {
        return Err(format!("data differs: without extensions {} with extensions {}", a, b));
    }
    let (ea, eb) = (error_multiset(base), error_multiset(with));
    if ea != eb {
        return Err(format!("errors differ: without extensions {:?} with extensions {:?}", ea, eb));
    }
    if base.extensions != with.extensions {
        return Err(format!("response extensions differ: {:?} vs {:?}", base.extensions, with.extensions));
    }
    if base.cache_control != with.cache_control {
        return Err(format!("cache policy differs: {:?} vs {:?}", base.cache_control, with.cache_control));
    }
    if base.http_headers != with.http_headers {
        return Err(format!("HTTP headers differ: {:?} vs {:?}", base.http_headers, with.http_headers));
    }
    Ok(())
}

struct Judged {
    resolves: usize,
    counted: bool,
}

/// `want` = the reference executor's result for a valid request (None: the reference and the extension-free run
/// disagree about data/errors, which is C01/C02's subject — then only the count oracle is skipped).
fn judge(kind: Kind, n: usize, base: &Response, with: &Response, evs: &[Ev], want: Option<&RefOut>) -> Result<Judged, String> {
    transparent(base, with)?;
    let t = check_trace(n, evs).map_err(|e| format!("trace grammar: {}; trace: {}", e, show_trace(evs)))?;
    use Hook::*;
    let full = [PrepareRequest, ParseQuery, Validation, Execute];
    let allowed: &[usize] = match kind {
        Kind::Valid => &[4],
        Kind::Syntax => &[2],
        Kind::UnknownField => &[3],
        Kind::UnknownOperation => &[2, 3],
        Kind::MissingVariable => &[3, 4],
    };
    if t.stages != full[..t.stages.len().min(4)] || !allowed.contains(&t.stages.len()) {
        return Err(format!(
            "lifecycle: a {} request ran the hooks [{}]; expected {}; trace: {}",
            kind.label(),
            t.stages.iter().map(|h| h.short()).collect::<Vec<_>>().join(" "),
            allowed.iter().map(|k| format!("[{}]", full[..*k].iter().map(|h| h.short()).collect::<Vec<_>>().join(" "))).collect::<Vec<_>>().join(" or "),
            show_trace(evs)
        ));
    }
    let mut counted = false;
    // with a failing resolver the siblings of a propagating error may or may not have been resolved: no count then
    if let (Kind::Valid, Some(w)) = (kind, want.filter(|w| w.errors.is_empty())) {
        let expect = w.touches.len() + w.list_items;
        let got = t.resolves - t.typename_resolves;
        if got != expect {
            return Err(format!(
                "resolve ran {} times per extension (not counting {} for __typename); the reference execution resolves {} fields and completes {} list items = {}",
                got,
                t.typename_resolves,
                w.touches.len(),
                w.list_items,
                expect
            ));
        }
        counted = true;
    }
    Ok(Judged { resolves: t.resolves, counted })
}

fn classify(c: Case, r: &Req, n: usize, flavour: &str, j: Option<&Judged>, want: Option<&RefOut>) -> Case {
    let lists = want.map_or(false, |w| w.list_items > 0);
    let resolves = j.map_or(0, |j| j.resolves);
    let mutation = matches!(r.td.doc.defs.first(), Some(Def::Op(o)) if o.kind == OpKind::Mutation);
    let nontrivial = r.kind != Kind::Valid || (n >= 2 && resolves >= 2);
    let nt = c.nontrivial || nontrivial;
    c.nontrivial(nt)
        .class(r.kind.label())
        .class(format!("{}-extensions", n))
        .class(flavour.to_string())
        .class_if(lists, "list-items-resolved")
        .class_if(resolves >= 10, "resolves>=10")
        .class_if(mutation, "mutation")
        .class_if(r.kind == Kind::Valid && j.map_or(false, |j| !j.counted) && want.map_or(true, |w| w.errors.is_empty()), "reference-disagrees(count-not-checked)")
        .class_if(want.map_or(false, |w| !w.errors.is_empty()), "failing-resolver")
        .class_if(want.map_or(false, |w| w.errors.iter().any(|e| e.nulled.len() < e.path.len())), "failing-resolver-error-propagates")
        .class_if(want.map_or(false, |w| w.errors.iter().any(|e| e.nulled.len() < e.path.len() && e.path.iter().any(|s| matches!(s, vgql::refexec::Seg::Idx(_))))), "failing-resolver-below-list-item-propagates")
        .class_if(r.td.stats.named_fragments > 0, "named-fragment")
}

fn take(log: &Log) -> Vec<Ev> {
    std::mem::take(&mut *log.lock().unwrap())
}

fn reference(sch: &Sch, r: &Req, world: &World, base: &Response) -> Option<RefOut> {
    if r.kind != Kind::Valid {
        return None;
    }
    let w = execute(sch, &r.td.doc, r.td.op_name.as_deref(), &r.td.vars, world, Quirks::default()).ok()?;
    compare(&w, base).ok()?;
    Some(w)
}

// ---------------------------------------------------------------------------------------------------------------
// static Z

struct Stack<S> {
    schemas: Vec<S>,
    log: Log,
}

fn z_stack() -> Stack<ZSchema> {
    let log: Log = Default::default();
    let schemas = (0..=3usize)
        .map(|n| {
            build_z(|mut b| {
                for idx in 0..n {
                    b = b.extension(RecFactory { idx, log: log.clone() });
                }
                b
            })
        })
        .collect();
    Stack { schemas, log }
}


/// One failing resolver at a position the request reaches (half of the valid cases): transparency covers `errors`
/// too. One fault only, so that which errors are reported does not depend on how far sibling resolvers got.
fn inject_fault(sch: &Sch, r: &Req, world: &mut World, s: &mut dyn Src, static_z: bool) {
    if r.kind != Kind::Valid || !s.bool() {
        return;
    }
    let Ok(w) = execute(sch, &r.td.doc, r.td.op_name.as_deref(), &r.td.vars, world, Quirks::default()) else { return };
    let reached: Vec<(usize, String)> = w.touches.iter().filter(|t| !(static_z && vschemas::z::is_plain_data_field(&t.parent_type, &t.field))).map(|t| (t.node, t.field.clone())).collect();
    if reached.is_empty() {
        return;
    }
    let at = reached[s.choose(reached.len())].clone();
    world.faults.insert(at, Fault::ResolverError);
}

fn static_case(st: &Stack<ZSchema>, sch: &Sch, s: &mut dyn Src, tcfg: &TypedCfg) -> Case {
    let n = 1 + s.choose(3);
    let mut world = gen_world(sch, s, &WorldCfg::default());
    let r = gen_req(sch, s, tcfg);
    inject_fault(sch, &r, &mut world, s, true);
    let rendered = format!("static Z, {} extensions, {} request\nworld: {}\nquery: {}\nvariables: {}\noperationName: {:?}", n, r.kind.label(), world.show(), r.text, vars_json(&r.td.vars), r.op_name);
    let rt = Rt::new(world.clone());
    let base = vcore::det::block_on(st.schemas[0].execute(ag_request(&r).data(rt.clone())));
    if !take(&st.log).is_empty() {
        return Case::fail(rendered, "hooks ran on the schema without extensions");
    }
    let with = vcore::det::block_on(st.schemas[n].execute(ag_request(&r).data(rt)));
    let evs = take(&st.log);
    let want = reference(sch, &r, &world, &base);
    match judge(r.kind, n, &base, &with, &evs, want.as_ref()) {
        Ok(j) => classify(Case::pass(rendered), &r, n, "static", Some(&j), want.as_ref()),
        Err(e) => classify(Case::fail(rendered, e), &r, n, "static", None, want.as_ref()),
    }
}

// ---------------------------------------------------------------------------------------------------------------
// dynamic schemas (the mirror of Z, or a random type system)

fn dynamic_case(fixed: Option<&Sch>, s: &mut dyn Src, tcfg: &TypedCfg) -> Case {
    let n = 1 + s.choose(3);
    let gen;
    let (sch, flavour): (&Sch, &str) = match fixed {
        Some(x) => (x, "dynamic-mirror-of-Z"),
        None => {
            gen = gen_sch(s, &SchCfg::default());
            (&gen, "dynamic-random")
        }
    };
    let mut world = gen_world(sch, s, &WorldCfg { null_composite_items: false, ..WorldCfg::default() });
    let r = gen_req(sch, s, tcfg);
    inject_fault(sch, &r, &mut world, s, false);
    let rendered = format!(
        "{}, {} extensions, {} request\n{}world: {}\nquery: {}\nvariables: {}\noperationName: {:?}",
        flavour,
        n,
        r.kind.label(),
        if fixed.is_none() { format!("schema: {}\n", show_sch(sch)) } else { String::new() },
        world.show(),
        r.text,
        vars_json(&r.td.vars),
        r.op_name
    );
    let rt = Rt::new(world.clone());
    let log: Log = Default::default();
    let plain = match build_dynamic(sch, &rt, |b| b) {
        Ok(x) => x,
        Err(e) => return Case::fail(rendered, format!("HARNESS: generated schema does not build: {}", e)),
    };
    let stacked = match build_dynamic(sch, &rt, |mut b| {
        for idx in 0..n {
            b = b.extension(RecFactory { idx, log: log.clone() });
        }
        b
    }) {
        Ok(x) => x,
        Err(e) => return Case::fail(rendered, format!("HARNESS: generated schema does not build with extensions: {}", e)),
    };
    let base = vcore::det::block_on(plain.execute(ag_request(&r)));
    let with = vcore::det::block_on(stacked.execute(ag_request(&r)));
    let evs = take(&log);
    let want = reference(sch, &r, &world, &base);
    match judge(r.kind, n, &base, &with, &evs, want.as_ref()) {
        Ok(j) => classify(Case::pass(rendered), &r, n, flavour, Some(&j), want.as_ref()),
        Err(e) => classify(Case::fail(rendered, e), &r, n, flavour, None, want.as_ref()),
    }
}

// ---------------------------------------------------------------------------------------------------------------
// a derive-built schema with the object flavours whose Rust type and GraphQL type differ in shape: merged objects
// (query root, mutation root and a nested one), a flattened field, a generic object with concrete names; plus a
// cache hint and a resolver that sets an HTTP header, so that cache policy and headers of the response are not
// trivially empty. The extension-enabled field path looks the field up in the registry by `T::type_name()`.

mod m {
    use async_graphql::*;

    #[derive(SimpleObject)]
    #[graphql(concrete(name = "IntBox", params(i32)), concrete(name = "StrBox", params(String)))]
    pub struct GBox<T: OutputType> {
        pub value: T,
        pub items: Vec<T>,
    }
    pub fn ibox() -> GBox<i32> {
        GBox { value: 5, items: vec![5, 6] }
    }
    pub fn sbox() -> GBox<String> {
        GBox { value: "s".into(), items: vec!["a".into(), "b".into(), "c".into()] }
    }

    #[derive(SimpleObject)]
    pub struct Inner {
        pub in1: i32,
        pub in2: Option<String>,
        pub in_list: Vec<i32>,
    }

    #[derive(SimpleObject)]
    pub struct Flat {
        pub own: i32,
        #[graphql(flatten)]
        pub inner: Inner,
        pub ibox: GBox<i32>,
    }
    pub fn flat() -> Flat {
        Flat { own: 2, inner: Inner { in1: 3, in2: Some("x".into()), in_list: vec![1, 2] }, ibox: ibox() }
    }

    #[derive(SimpleObject)]
    pub struct HalfA {
        pub ha: i32,
        pub flat: Flat,
    }
    pub struct HalfB;
    #[Object]
    impl HalfB {
        async fn hb(&self, #[graphql(default = 1)] x: i32) -> String {
            let _ = x;
            "hb".into()
        }
        #[graphql(cache_control(max_age = 30))]
        async fn cached(&self) -> i32 {
            9
        }
        async fn sboxes(&self) -> Vec<GBox<String>> {
            vec![sbox()]
        }
    }
    #[derive(MergedObject)]
    pub struct Both(pub HalfA, pub HalfB);
    pub fn both() -> Both {
        Both(HalfA { ha: 4, flat: flat() }, HalfB)
    }

    #[derive(SimpleObject)]
    pub struct QA {
        pub qa: i32,
        pub flat: Flat,
    }
    pub struct QB;
    #[Object]
    impl QB {
        async fn ibox(&self) -> GBox<i32> {
            ibox()
        }
        async fn sbox(&self) -> Option<GBox<String>> {
            Some(sbox())
        }
        async fn both(&self) -> Both {
            both()
        }
        async fn boths(&self) -> Vec<Both> {
            vec![both(), both()]
        }
        async fn hdr(&self, ctx: &Context<'_>) -> i32 {
            ctx.insert_http_header("x-verif", "1");
            7
        }
    }
    #[derive(MergedObject)]
    pub struct MQuery(pub QA, pub QB);

    #[derive(SimpleObject)]
    pub struct MA {
        pub ma: i32,
    }
    pub struct MB;
    #[Object]
    impl MB {
        async fn set(&self, v: Option<i32>) -> Both {
            let _ = v;
            both()
        }
    }
    #[derive(MergedObject)]
    pub struct MMutation(pub MA, pub MB);

    pub type MSchema = Schema<MQuery, MMutation, EmptySubscription>;
    pub fn build(configure: impl FnOnce(SchemaBuilder<MQuery, MMutation, EmptySubscription>) -> SchemaBuilder<MQuery, MMutation, EmptySubscription>) -> MSchema {
        configure(Schema::build(MQuery(QA { qa: 1, flat: flat() }, QB), MMutation(MA { ma: 1 }, MB), EmptySubscription)).finish()
    }
}

/// the data the resolvers of `m` return, as a world for the reference executor
fn m_world() -> World {
    use WVal::*;
    let ints = |v: &[i64]| List(v.iter().map(|i| Int(*i)).collect());
    let node = |ty: &str, fields: Vec<(&str, WVal)>| Node { ty: ty.into(), fields: fields.into_iter().map(|(k, v)| (k.to_string(), v)).collect() };
    let (f, ib, sb, b) = (2, 3, 4, 5);
    World {
        nodes: vec![
            node("MQuery", vec![("qa", Int(1)), ("flat", Ref(f)), ("ibox", Ref(ib)), ("sbox", Ref(sb)), ("both", Ref(b)), ("boths", List(vec![Ref(b), Ref(b)])), ("hdr", Int(7))]),
            node("MMutation", vec![("ma", Int(1)), ("set", Ref(b))]),
            node("Flat", vec![("own", Int(2)), ("in1", Int(3)), ("in2", Str("x".into())), ("inList", ints(&[1, 2])), ("ibox", Ref(ib))]),
            node("IntBox", vec![("value", Int(5)), ("items", ints(&[5, 6]))]),
            node("StrBox", vec![("value", Str("s".into())), ("items", List(vec![Str("a".into()), Str("b".into()), Str("c".into())]))]),
            node("Both", vec![("ha", Int(4)), ("flat", Ref(f)), ("hb", Str("hb".into())), ("cached", Int(9)), ("sboxes", List(vec![Ref(sb)]))]),
        ],
        query_root: 0,
        mutation_root: Some(1),
        subscription_root: None,
        faults: Default::default(),
        plain_leaf_lists: false,
    }
}

fn m_stack() -> Stack<m::MSchema> {
    let log: Log = Default::default();
    let schemas = (0..=3usize)
        .map(|n| {
            m::build(|mut b| {
                for idx in 0..n {
                    b = b.extension(RecFactory { idx, log: log.clone() });
                }
                b
            })
        })
        .collect();
    Stack { schemas, log }
}

fn merged_case(st: &Stack<m::MSchema>, sch: &Sch, world: &World, s: &mut dyn Src, tcfg: &TypedCfg) -> Case {
    let n = 1 + s.choose(3);
    let r = gen_req(sch, s, tcfg);
    let rendered = format!("static merged/flattened/generic schema, {} extensions, {} request\nquery: {}\nvariables: {}\noperationName: {:?}", n, r.kind.label(), r.text, vars_json(&r.td.vars), r.op_name);
    let base = vcore::det::block_on(st.schemas[0].execute(ag_request(&r)));
    if !take(&st.log).is_empty() {
        return Case::fail(rendered, "hooks ran on the schema without extensions");
    }
    let with = vcore::det::block_on(st.schemas[n].execute(ag_request(&r)));
    let evs = take(&st.log);
    let want = reference(sch, &r, world, &base);
    let c = match judge(r.kind, n, &base, &with, &evs, want.as_ref()) {
        Ok(j) => classify(Case::pass(rendered), &r, n, "static-merged-flattened-generic", Some(&j), want.as_ref()),
        Err(e) => classify(Case::fail(rendered, e), &r, n, "static-merged-flattened-generic", None, want.as_ref()),
    };
    c.class_if(!base.http_headers.is_empty(), "http-header-set").class_if(format!("{:?}", base.cache_control) != format!("{:?}", async_graphql::CacheControl::default()), "cache-policy-set")
}

pub fn run(ctx: &mut Ctx) {
    ctx.rule = "a request (type-directed valid query/mutation with fragments, directives and variables, or one damaged into a syntax error / unknown field / unknown operation name / \
                missing required variable) is executed on a data world without extensions and with a stack of 1-3 recording pass-through extensions; schemas: static Z, a static \
                schema built from merged, flattened and generic objects, the dynamic mirror of Z, random dynamic type systems. Non-trivial = an invalid request, or a valid one \
                with >= 2 extensions and >= 2 resolve invocations; distinct by rendered (schema, extension count, world, query, variables, operation name)"
        .into();
    ctx.assume("'nested in registration order' is read as: the extension registered first is the outermost one (its hook starts first and finishes last), the next one runs directly inside it, and so on");
    ctx.assume("resolvers are not gated, so execution is sequential and the recorded trace is a well-nested word; concurrency of sibling fields is not part of this check");
    ctx.assume("__typename is answered without a resolver: resolve invocations for __typename are neither required nor forbidden and are left out of the count");
    ctx.assume("an unknown operation name may stop the request before or after validation; a missing required variable may stop it at validation or inside execute (where variable coercion happens is not fixed by the statement); then the number of resolve invocations is not constrained");
    if ctx.open("C04-F1") {
        ctx.assume("response keys are unique within every selection set (TypedCfg.repeats = false): repeated keys are executed once per occurrence (open finding C04-F1), which makes the reference count undefined");
        ctx.excluded("C04-F1");
    }
    ctx.assume("if the reference executor and the extension-free run disagree about the response (the subject of C01/C02), transparency and the grammar are still checked and only the resolve count is skipped (class reference-disagrees)");
    ctx.assume("the subscribe hook and execute_stream are out of scope (the statement lists request, prepare_request, parse_query, validation, execute, resolve)");
    if ctx.open("C04-F1") {
        ctx.excluded("C04-F1");
    }
    let mut tcfg = crate::c02::typed_cfg(ctx, "C01");
    tcfg.repeats = !ctx.open("C04-F1");
    tcfg.ops = vec![OpKind::Query, OpKind::Query, OpKind::Mutation];
    let mut dcfg = crate::c02::typed_cfg(ctx, "C02");
    dcfg.repeats = !ctx.open("C04-F1");
    dcfg.ops = vec![OpKind::Query, OpKind::Query, OpKind::Mutation];

    let zs = z_stack();
    let zsch = z_sch(&zs.schemas[0]);
    let n = ctx.tier.pick(16_000, 500_000);
    ctx.stream("static-z", n, 700, |s| static_case(&zs, &zsch, s, &tcfg));

    let ms = m_stack();
    let mut msch = vgql::sch::from_sdl_text(&ms.schemas[0].sdl()).expect("SDL of the merged schema must be readable by the reference parser");
    for b in vgql::sch::BUILTIN_SCALARS {
        msch.types.shift_remove(b);
    }
    let mworld = m_world();
    ctx.stream("static-merged", n / 2, 500, |s| merged_case(&ms, &msch, &mworld, s, &tcfg));

    ctx.stream("dynamic-mirror-of-z", n / 2, 700, |s| dynamic_case(Some(&zsch), s, &dcfg));
    ctx.stream("dynamic-random", n, 700, |s| dynamic_case(None, s, &dcfg));

    ctx.floor("valid", 2_000);
    ctx.floor("syntax-error", 300);
    ctx.floor("unknown-field", 300);
    ctx.floor("unknown-operation-name", 300);
    ctx.floor("missing-required-variable", 300);
    ctx.floor("3-extensions", 1_000);
    ctx.floor("list-items-resolved", 500);
    ctx.floor("mutation", 300);
    ctx.floor("cache-policy-set", 50);
    ctx.floor("http-header-set", 50);
}
