//! C34 — the GraphiQL page embeds its configuration verbatim and safely.
//!
//! The oracle reads the page the way a browser does: an HTML tokenizer (newline normalisation, tags with
//! attributes, comments, RCDATA for <title>, RAWTEXT for <style>, the script-data states including the
//! `<!--` / `<script` escape states) yields the title (character references decoded) and the raw text of each
//! script element; the module script's `createGraphiQLFetcher({...})` argument is then parsed as a JavaScript
//! object literal (string literals evaluated with the ECMAScript rules for module code) and interpreted.
//! Everything outside the configured strings must be identical to a rendering of the same shape with plain
//! alphanumeric values.
use async_graphql::http::GraphiQLSource;
use std::collections::BTreeMap;
use vcore::gens::*;
use vcore::{json, Case, Ctx, Src};

const F1: &str = "C34-F1";
const F2: &str = "C34-F2";
const F3: &str = "C34-F3";

// =========================================================================================================
// configuration
// =========================================================================================================

#[derive(Clone, Debug, PartialEq)]
struct Cfg {
    endpoint: String,
    sub: Option<String>,
    title: Option<String>,
    headers: Vec<(String, String)>,
    ws: Vec<(String, String)>,
}
impl Cfg {
    fn render(&self) -> String {
        let mut b = GraphiQLSource::build().endpoint(&self.endpoint);
        if let Some(s) = &self.sub {
            b = b.subscription_endpoint(s);
        }
        if let Some(t) = &self.title {
            b = b.title(t);
        }
        for (k, v) in &self.headers {
            b = b.header(k, v);
        }
        for (k, v) in &self.ws {
            b = b.ws_connection_param(k, v);
        }
        b.finish()
    }
    /// every string that is embedded in the script
    fn script_strings(&self) -> Vec<&str> {
        let mut v = vec![self.endpoint.as_str()];
        v.extend(self.sub.as_deref());
        for (k, x) in self.headers.iter().chain(self.ws.iter()) {
            v.push(k);
            v.push(x);
        }
        v
    }
    /// same shape, every string replaced by a unique alphanumeric placeholder
    fn placeholders(&self) -> Cfg {
        Cfg {
            endpoint: "VPLHxENDPOINTx".into(),
            sub: self.sub.as_ref().map(|_| "VPLHxSUBx".to_string()),
            title: self.title.as_ref().map(|_| "VPLHxTITLEx".to_string()),
            headers: (0..self.headers.len()).map(|i| (format!("VPLHxHK{}x", i), format!("VPLHxHV{}x", i))).collect(),
            ws: (0..self.ws.len()).map(|i| (format!("VPLHxWK{}x", i), format!("VPLHxWV{}x", i))).collect(),
        }
    }
    /// what a browser must end up with
    fn expected(&self) -> Eval {
        let m = |v: &Vec<(String, String)>| if v.is_empty() { None } else { Some(v.iter().map(|(k, x)| (u16s(k), u16s(x))).collect::<BTreeMap<_, _>>()) };
        Eval {
            title: html_input_normalise(self.title.as_deref().unwrap_or("GraphiQL")),
            url: u16s(&self.endpoint),
            sub: self.sub.as_deref().map(u16s),
            headers: m(&self.headers),
            ws: m(&self.ws),
        }
    }
}

fn u16s(s: &str) -> Vec<u16> {
    s.encode_utf16().collect()
}
fn show16(v: &[u16]) -> String {
    format!("{:?}", String::from_utf16_lossy(v))
}

/// Result of reading the page.
#[derive(Clone, Debug, PartialEq)]
struct Eval {
    title: String,
    url: Vec<u16>,
    sub: Option<Vec<u16>>,
    headers: Option<BTreeMap<Vec<u16>, Vec<u16>>>,
    ws: Option<BTreeMap<Vec<u16>, Vec<u16>>>,
}
impl Eval {
    fn show(&self) -> String {
        let m = |m: &Option<BTreeMap<Vec<u16>, Vec<u16>>>| match m {
            None => "absent".to_string(),
            Some(m) => format!("{{{}}}", m.iter().map(|(k, v)| format!("{}: {}", show16(k), show16(v))).collect::<Vec<_>>().join(", ")),
        };
        format!(
            "title={:?} url={} subscriptionUrl={} headers={} wsConnectionParams={}",
            self.title,
            show16(&self.url),
            self.sub.as_ref().map(|s| show16(s)).unwrap_or("absent".into()),
            m(&self.headers),
            m(&self.ws)
        )
    }
}

// =========================================================================================================
// HTML
// =========================================================================================================

/// HTML input-stream preprocessing that no markup can undo for literal text: CR LF and CR become LF.
/// (NUL becomes U+FFFD in the text states.) Applied to the page and — for the title, where the statement
/// makes no demand about these two characters — to the expected title as well.
fn html_input_normalise(s: &str) -> String {
    s.replace("\r\n", "\n").replace('\r', "\n").replace('\0', "\u{fffd}")
}

#[derive(Clone, Debug, PartialEq)]
enum Tok {
    Doctype(String),
    Comment(String),
    Start(String, Vec<(String, String)>),
    End(String),
    Text(String),
    /// content of a <title> (decoded), a RAWTEXT element, or a script element (raw)
    TitleText,
    RawText(String),
    Script(usize),
}

struct Page {
    /// token sequence with title / script contents taken out
    skeleton: Vec<Tok>,
    titles: Vec<String>,
    /// (attributes of the start tag, raw content)
    scripts: Vec<(Vec<(String, String)>, String)>,
}

fn is_html_ws(c: char) -> bool {
    matches!(c, '\t' | '\n' | '\u{c}' | '\r' | ' ')
}

/// does `rest` start with `</name` followed by whitespace, `/` or `>` (ASCII case-insensitive)?
fn at_end_tag(rest: &[char], name: &str) -> bool {
    let n = name.len();
    rest.len() > 2 + n
        && rest[0] == '<'
        && rest[1] == '/'
        && rest[2..2 + n].iter().zip(name.chars()).all(|(a, b)| a.to_ascii_lowercase() == b)
        && (is_html_ws(rest[2 + n]) || rest[2 + n] == '/' || rest[2 + n] == '>')
}
fn at_start_tag(rest: &[char], name: &str) -> bool {
    let n = name.len();
    rest.len() > 1 + n
        && rest[0] == '<'
        && rest[1..1 + n].iter().zip(name.chars()).all(|(a, b)| a.to_ascii_lowercase() == b)
        && (is_html_ws(rest[1 + n]) || rest[1 + n] == '/' || rest[1 + n] == '>')
}

/// parse a tag starting at `i` (pointing at the first character of the name); returns (name, attrs, index after `>`)
fn parse_tag(cs: &[char], mut i: usize) -> Result<(String, Vec<(String, String)>, usize), String> {
    let mut name = String::new();
    while i < cs.len() && !is_html_ws(cs[i]) && cs[i] != '/' && cs[i] != '>' {
        name.push(cs[i].to_ascii_lowercase());
        i += 1;
    }
    let mut attrs = vec![];
    loop {
        while i < cs.len() && (is_html_ws(cs[i]) || cs[i] == '/') {
            i += 1;
        }
        if i >= cs.len() {
            return Err(format!("end of input inside tag <{}", name));
        }
        if cs[i] == '>' {
            return Ok((name, attrs, i + 1));
        }
        let mut an = String::new();
        // a leading '=' is part of the attribute name (parse error in the specification, same token boundaries)
        if cs[i] == '=' {
            an.push('=');
            i += 1;
        }
        while i < cs.len() && !is_html_ws(cs[i]) && cs[i] != '/' && cs[i] != '>' && cs[i] != '=' {
            an.push(cs[i].to_ascii_lowercase());
            i += 1;
        }
        while i < cs.len() && is_html_ws(cs[i]) {
            i += 1;
        }
        let mut av = String::new();
        if i < cs.len() && cs[i] == '=' {
            i += 1;
            while i < cs.len() && is_html_ws(cs[i]) {
                i += 1;
            }
            if i < cs.len() && (cs[i] == '"' || cs[i] == '\'') {
                let q = cs[i];
                i += 1;
                while i < cs.len() && cs[i] != q {
                    av.push(cs[i]);
                    i += 1;
                }
                if i >= cs.len() {
                    return Err(format!("end of input inside attribute value of <{}", name));
                }
                i += 1;
            } else {
                while i < cs.len() && !is_html_ws(cs[i]) && cs[i] != '>' {
                    av.push(cs[i]);
                    i += 1;
                }
            }
        }
        attrs.push((an, av));
    }
}

/// text of an RCDATA / RAWTEXT element starting at `i`; returns (raw text, index after the end tag)
fn raw_until_end_tag(cs: &[char], i: usize, name: &str) -> Result<(String, usize), String> {
    let mut j = i;
    while j < cs.len() {
        if at_end_tag(&cs[j..], name) {
            let (_, _, after) = parse_tag(cs, j + 2)?;
            let text: String = cs[i..j].iter().map(|c| if *c == '\0' { '\u{fffd}' } else { *c }).collect();
            return Ok((text, after));
        }
        j += 1;
    }
    Err(format!("<{}> element is never closed", name))
}

/// script data, script data escaped and script data double escaped states
fn script_until_end_tag(cs: &[char], i: usize) -> Result<(String, usize), String> {
    #[derive(PartialEq)]
    enum S {
        Data,
        Escaped,
        DoubleEscaped,
    }
    let mut st = S::Data;
    let mut dashes = 0usize;
    let mut j = i;
    while j < cs.len() {
        let rest = &cs[j..];
        match st {
            S::Data => {
                if rest.len() >= 4 && rest[0] == '<' && rest[1] == '!' && rest[2] == '-' && rest[3] == '-' {
                    st = S::Escaped;
                    dashes = 2;
                    j += 4;
                    continue;
                }
                if at_end_tag(rest, "script") {
                    break;
                }
                j += 1;
            }
            S::Escaped | S::DoubleEscaped => match rest[0] {
                '-' => {
                    dashes += 1;
                    j += 1;
                }
                '>' if dashes >= 2 => {
                    st = S::Data;
                    dashes = 0;
                    j += 1;
                }
                '<' => {
                    dashes = 0;
                    if st == S::Escaped {
                        if at_end_tag(rest, "script") {
                            break;
                        }
                        if at_start_tag(rest, "script") {
                            st = S::DoubleEscaped;
                            j += 7;
                            continue;
                        }
                    } else if at_end_tag(rest, "script") {
                        st = S::Escaped;
                        j += 8;
                        continue;
                    }
                    j += 1;
                }
                _ => {
                    dashes = 0;
                    j += 1;
                }
            },
        }
    }
    if j >= cs.len() {
        return Err("script element is never closed (the rest of the page is script text)".into());
    }
    let (_, _, after) = parse_tag(cs, j + 2)?;
    let text: String = cs[i..j].iter().map(|c| if *c == '\0' { '\u{fffd}' } else { *c }).collect();
    Ok((text, after))
}

/// windows-1252 remapping of numeric character references 0x80..0x9F
const C1_MAP: [u32; 32] = [
    0x20AC, 0x81, 0x201A, 0x0192, 0x201E, 0x2026, 0x2020, 0x2021, 0x02C6, 0x2030, 0x0160, 0x2039, 0x0152, 0x8D, 0x017D, 0x8F, 0x90, 0x2018, 0x2019, 0x201C,
    0x201D, 0x2022, 0x2013, 0x2014, 0x02DC, 0x2122, 0x0161, 0x203A, 0x0153, 0x9D, 0x017E, 0x0178,
];

/// character references in RCDATA text
fn decode_char_refs(s: &str) -> Result<String, String> {
    let cs: Vec<char> = s.chars().collect();
    let mut out = String::new();
    let mut i = 0;
    while i < cs.len() {
        if cs[i] != '&' {
            out.push(cs[i]);
            i += 1;
            continue;
        }
        let rest = &cs[i + 1..];
        if rest.first() == Some(&'#') {
            let hex = matches!(rest.get(1), Some('x') | Some('X'));
            let start = if hex { 2 } else { 1 };
            let mut j = start;
            let mut val: u32 = 0;
            while j < rest.len() && (if hex { rest[j].is_ascii_hexdigit() } else { rest[j].is_ascii_digit() }) {
                val = val.saturating_mul(if hex { 16 } else { 10 }).saturating_add(rest[j].to_digit(16).unwrap());
                j += 1;
            }
            if j == start {
                out.push('&');
                i += 1;
                continue;
            }
            if rest.get(j) == Some(&';') {
                j += 1;
            }
            let cp = match val {
                0 => 0xfffd,
                v if v > 0x10ffff => 0xfffd,
                v if (0xd800..=0xdfff).contains(&v) => 0xfffd,
                v if (0x80..=0x9f).contains(&v) => C1_MAP[(v - 0x80) as usize],
                v => v,
            };
            out.push(char::from_u32(cp).unwrap_or('\u{fffd}'));
            i += 1 + j;
            continue;
        }
        if rest.first().map_or(false, |c| c.is_ascii_alphanumeric()) {
            let name: String = rest.iter().take_while(|c| c.is_ascii_alphanumeric()).collect();
            let semi = rest.get(name.len()) == Some(&';');
            // the five XML names (with ';') and their legacy forms that also work without ';' (longest-prefix match)
            let legacy = [("amp", '&'), ("lt", '<'), ("gt", '>'), ("quot", '"'), ("AMP", '&'), ("LT", '<'), ("GT", '>'), ("QUOT", '"')];
            if semi && name == "apos" {
                out.push('\'');
                i += 1 + name.len() + 1;
                continue;
            }
            if let Some((n, c)) = legacy.iter().find(|(n, _)| name == *n) {
                out.push(*c);
                i += 1 + n.len() + if semi { 1 } else { 0 };
                continue;
            }
            return Err(format!(
                "raw '&' followed by {:?} in the title: its meaning depends on the named character reference table (not modelled); a configured '&' must be escaped",
                name
            ));
        }
        out.push('&');
        i += 1;
    }
    Ok(out)
}

fn tokenize_html(page: &str) -> Result<Page, String> {
    let norm = page.replace("\r\n", "\n").replace('\r', "\n");
    let cs: Vec<char> = norm.chars().collect();
    let mut p = Page { skeleton: vec![], titles: vec![], scripts: vec![] };
    let mut text = String::new();
    let mut i = 0;
    macro_rules! flush {
        () => {
            if !text.trim().is_empty() {
                p.skeleton.push(Tok::Text(std::mem::take(&mut text)));
            } else {
                text.clear();
            }
        };
    }
    while i < cs.len() {
        if cs[i] != '<' {
            text.push(cs[i]);
            i += 1;
            continue;
        }
        let rest = &cs[i..];
        if rest.len() >= 4 && rest[1] == '!' && rest[2] == '-' && rest[3] == '-' {
            flush!();
            let mut j = i + 4;
            let body_start = j;
            // "<!-->" and "<!--->" are complete (empty) comments
            if j < cs.len() && cs[j] == '>' {
                p.skeleton.push(Tok::Comment(String::new()));
                i = j + 1;
                continue;
            }
            if j + 1 < cs.len() && cs[j] == '-' && cs[j + 1] == '>' {
                p.skeleton.push(Tok::Comment(String::new()));
                i = j + 2;
                continue;
            }
            let mut end = None;
            while j < cs.len() {
                if cs[j] == '-' && j + 2 < cs.len() && cs[j + 1] == '-' && cs[j + 2] == '>' {
                    end = Some((j, j + 3));
                    break;
                }
                if cs[j] == '-' && j + 3 < cs.len() && cs[j + 1] == '-' && cs[j + 2] == '!' && cs[j + 3] == '>' {
                    end = Some((j, j + 4));
                    break;
                }
                j += 1;
            }
            let (e, after) = end.unwrap_or((cs.len(), cs.len()));
            p.skeleton.push(Tok::Comment(cs[body_start..e].iter().collect()));
            i = after;
            continue;
        }
        if rest.len() >= 2 && (rest[1] == '!' || rest[1] == '?') {
            flush!();
            let mut j = i + 2;
            while j < cs.len() && cs[j] != '>' {
                j += 1;
            }
            p.skeleton.push(Tok::Doctype(cs[i + 1..j.min(cs.len())].iter().collect()));
            i = j + 1;
            continue;
        }
        if rest.len() >= 3 && rest[1] == '/' && rest[2].is_ascii_alphabetic() {
            flush!();
            let (name, _, after) = parse_tag(&cs, i + 2)?;
            p.skeleton.push(Tok::End(name));
            i = after;
            continue;
        }
        if rest.len() >= 2 && rest[1].is_ascii_alphabetic() {
            flush!();
            let (name, attrs, after) = parse_tag(&cs, i + 1)?;
            p.skeleton.push(Tok::Start(name.clone(), attrs.clone()));
            i = after;
            match name.as_str() {
                "title" | "textarea" => {
                    let (raw, after) = raw_until_end_tag(&cs, i, &name)?;
                    if name == "title" {
                        p.titles.push(decode_char_refs(&raw)?);
                        p.skeleton.push(Tok::TitleText);
                    } else {
                        p.skeleton.push(Tok::RawText(raw));
                    }
                    p.skeleton.push(Tok::End(name));
                    i = after;
                }
                "style" | "xmp" | "iframe" | "noembed" | "noframes" => {
                    let (raw, after) = raw_until_end_tag(&cs, i, &name)?;
                    p.skeleton.push(Tok::RawText(raw));
                    p.skeleton.push(Tok::End(name));
                    i = after;
                }
                "script" => {
                    let (raw, after) = script_until_end_tag(&cs, i)?;
                    p.skeleton.push(Tok::Script(p.scripts.len()));
                    p.scripts.push((attrs, raw));
                    p.skeleton.push(Tok::End(name));
                    i = after;
                }
                "plaintext" => return Err("<plaintext> swallows the rest of the page".into()),
                _ => {}
            }
            continue;
        }
        text.push('<');
        i += 1;
    }
    flush!();
    Ok(p)
}

// =========================================================================================================
// JavaScript (module code): the subset an object literal of strings, identifiers and calls needs
// =========================================================================================================

#[derive(Clone, Debug, PartialEq)]
enum JsTok {
    P(char),
    Ident(String),
    Str(Vec<u16>),
    Eof,
}
#[derive(Clone, Debug, PartialEq)]
enum Js {
    Str(Vec<u16>),
    Ident(String),
    Call(String, Vec<Js>),
    Obj(Vec<(Vec<u16>, Js)>),
}

fn is_js_line_terminator(c: char) -> bool {
    matches!(c, '\n' | '\r' | '\u{2028}' | '\u{2029}')
}
fn is_js_ws(c: char) -> bool {
    matches!(c, '\t' | '\u{b}' | '\u{c}' | ' ' | '\u{a0}' | '\u{feff}' | '\u{1680}' | '\u{2000}'..='\u{200a}' | '\u{202f}' | '\u{205f}' | '\u{3000}') || is_js_line_terminator(c)
}

struct JsLex<'a> {
    cs: &'a [char],
    i: usize,
}
impl<'a> JsLex<'a> {
    fn err<T>(&self, msg: impl Into<String>) -> Result<T, String> {
        Err(format!("script offset {}: {}", self.i, msg.into()))
    }
    fn skip_trivia(&mut self) -> Result<(), String> {
        loop {
            while self.i < self.cs.len() && is_js_ws(self.cs[self.i]) {
                self.i += 1;
            }
            if self.i + 1 < self.cs.len() && self.cs[self.i] == '/' && self.cs[self.i + 1] == '/' {
                while self.i < self.cs.len() && !is_js_line_terminator(self.cs[self.i]) {
                    self.i += 1;
                }
                continue;
            }
            if self.i + 1 < self.cs.len() && self.cs[self.i] == '/' && self.cs[self.i + 1] == '*' {
                self.i += 2;
                loop {
                    if self.i + 1 >= self.cs.len() {
                        return self.err("unterminated comment");
                    }
                    if self.cs[self.i] == '*' && self.cs[self.i + 1] == '/' {
                        self.i += 2;
                        break;
                    }
                    self.i += 1;
                }
                continue;
            }
            return Ok(());
        }
    }
    fn hex(&mut self, n: usize) -> Result<u32, String> {
        let mut v = 0u32;
        for _ in 0..n {
            match self.cs.get(self.i).and_then(|c| c.to_digit(16)) {
                Some(d) => {
                    v = v * 16 + d;
                    self.i += 1;
                }
                None => return self.err("invalid escape sequence: hexadecimal digit expected"),
            }
        }
        Ok(v)
    }
    /// StringLiteral, `self.i` at the opening quote
    fn string(&mut self) -> Result<Vec<u16>, String> {
        let q = self.cs[self.i];
        self.i += 1;
        let mut out: Vec<u16> = vec![];
        let mut b = [0u16; 2];
        loop {
            let c = match self.cs.get(self.i) {
                None => return self.err("unterminated string literal (end of script)"),
                Some(c) => *c,
            };
            self.i += 1;
            if c == q {
                return Ok(out);
            }
            if c == '\n' || c == '\r' {
                self.i -= 1;
                return self.err("unterminated string literal (raw line terminator inside the literal)");
            }
            if c != '\\' {
                // U+2028 / U+2029 are allowed unescaped inside string literals (ES2019)
                out.extend_from_slice(c.encode_utf16(&mut b));
                continue;
            }
            let e = match self.cs.get(self.i) {
                None => return self.err("unterminated string literal (end of script after backslash)"),
                Some(e) => *e,
            };
            self.i += 1;
            match e {
                '\r' => {
                    if self.cs.get(self.i) == Some(&'\n') {
                        self.i += 1;
                    }
                }
                '\n' | '\u{2028}' | '\u{2029}' => {}
                'b' => out.push(8),
                'f' => out.push(12),
                'n' => out.push(10),
                'r' => out.push(13),
                't' => out.push(9),
                'v' => out.push(11),
                '0' if !self.cs.get(self.i).map_or(false, |c| c.is_ascii_digit()) => out.push(0),
                '0'..='9' => {
                    self.i -= 1;
                    return self.err("octal / \\8 \\9 escape sequences are not allowed in module code");
                }
                'x' => {
                    let v = self.hex(2)?;
                    out.push(v as u16);
                }
                'u' => {
                    if self.cs.get(self.i) == Some(&'{') {
                        self.i += 1;
                        let mut v = 0u32;
                        let mut n = 0;
                        loop {
                            match self.cs.get(self.i) {
                                Some('}') if n > 0 => {
                                    self.i += 1;
                                    break;
                                }
                                Some(c) if c.is_ascii_hexdigit() => {
                                    v = v.saturating_mul(16).saturating_add(c.to_digit(16).unwrap());
                                    n += 1;
                                    self.i += 1;
                                }
                                _ => return self.err("invalid \\u{...} escape sequence"),
                            }
                        }
                        if v > 0x10ffff {
                            return self.err("\\u{...} escape beyond U+10FFFF");
                        }
                        if v >= 0x10000 {
                            let v = v - 0x10000;
                            out.push(0xd800 + (v >> 10) as u16);
                            out.push(0xdc00 + (v & 0x3ff) as u16);
                        } else {
                            out.push(v as u16);
                        }
                    } else {
                        let v = self.hex(4)?;
                        out.push(v as u16);
                    }
                }
                other => out.extend_from_slice(other.encode_utf16(&mut b)),
            }
        }
    }
    fn next(&mut self) -> Result<JsTok, String> {
        self.skip_trivia()?;
        let c = match self.cs.get(self.i) {
            None => return Ok(JsTok::Eof),
            Some(c) => *c,
        };
        match c {
            '{' | '}' | '(' | ')' | ',' | ':' | ';' => {
                self.i += 1;
                Ok(JsTok::P(c))
            }
            '\'' | '"' => Ok(JsTok::Str(self.string()?)),
            c if c.is_ascii_alphabetic() || c == '_' || c == '$' => {
                let st = self.i;
                while self.i < self.cs.len() && (self.cs[self.i].is_ascii_alphanumeric() || self.cs[self.i] == '_' || self.cs[self.i] == '$') {
                    self.i += 1;
                }
                Ok(JsTok::Ident(self.cs[st..self.i].iter().collect()))
            }
            other => self.err(format!("unexpected character {:?} (not a token of the configuration object)", other)),
        }
    }
    fn peek(&mut self) -> Result<JsTok, String> {
        let save = self.i;
        let t = self.next();
        self.i = save;
        t
    }
}

struct JsParser<'a> {
    lx: JsLex<'a>,
    /// tolerate a missing comma between a nested object literal and the next property (quirk C34-F3)
    lenient_comma: bool,
    used_lenient_comma: bool,
}
impl<'a> JsParser<'a> {
    fn expr(&mut self) -> Result<Js, String> {
        match self.lx.next()? {
            JsTok::Str(s) => Ok(Js::Str(s)),
            JsTok::P('{') => self.object_body(),
            JsTok::Ident(name) => {
                if self.lx.peek()? == JsTok::P('(') {
                    self.lx.next()?;
                    let mut args = vec![];
                    if self.lx.peek()? == JsTok::P(')') {
                        self.lx.next()?;
                        return Ok(Js::Call(name, args));
                    }
                    loop {
                        args.push(self.expr()?);
                        match self.lx.next()? {
                            JsTok::P(',') => continue,
                            JsTok::P(')') => return Ok(Js::Call(name, args)),
                            t => return self.lx.err(format!("expected ',' or ')' in the arguments of {}(), found {}", name, show_tok(&t))),
                        }
                    }
                }
                Ok(Js::Ident(name))
            }
            t => self.lx.err(format!("expected an expression, found {}", show_tok(&t))),
        }
    }
    /// after `{`
    fn object_body(&mut self) -> Result<Js, String> {
        let mut props = vec![];
        loop {
            let key = match self.lx.next()? {
                JsTok::P('}') => return Ok(Js::Obj(props)),
                JsTok::Str(s) => s,
                JsTok::Ident(n) => u16s(&n),
                t => return self.lx.err(format!("expected a property name or '}}', found {}", show_tok(&t))),
            };
            match self.lx.next()? {
                JsTok::P(':') => {}
                t => return self.lx.err(format!("expected ':' after property name {}, found {}", show16(&key), show_tok(&t))),
            }
            let v = self.expr()?;
            let was_obj = matches!(v, Js::Obj(_));
            props.push((key, v));
            match self.lx.peek()? {
                JsTok::P(',') => {
                    self.lx.next()?;
                }
                JsTok::P('}') => {}
                JsTok::Ident(_) | JsTok::Str(_) if self.lenient_comma && was_obj => self.used_lenient_comma = true,
                t => {
                    self.lx.next()?;
                    return self.lx.err(format!("expected ',' or '}}' after the value of property {}, found {}", show16(&props.last().unwrap().0), show_tok(&t)));
                }
            }
        }
    }
}
fn show_tok(t: &JsTok) -> String {
    match t {
        JsTok::P(c) => format!("'{}'", c),
        JsTok::Ident(n) => format!("identifier {}", n),
        JsTok::Str(s) => format!("string {}", show16(s)),
        JsTok::Eof => "end of script".into(),
    }
}

const ANCHOR: &str = "const fetcher = createGraphiQLFetcher(";

struct ScriptParts {
    head: String,
    arg: Js,
    tail: String,
    used_lenient_comma: bool,
}
fn parse_module_script(src: &str, lenient_comma: bool) -> Result<ScriptParts, String> {
    let at = src.find(ANCHOR).ok_or("the module script does not contain the createGraphiQLFetcher call")?;
    let head = &src[..at + ANCHOR.len()];
    let cs: Vec<char> = src[at + ANCHOR.len()..].chars().collect();
    let mut p = JsParser { lx: JsLex { cs: &cs, i: 0 }, lenient_comma, used_lenient_comma: false };
    let arg = match p.lx.next()? {
        JsTok::P('{') => p.object_body()?,
        t => return p.lx.err(format!("expected the options object, found {}", show_tok(&t))),
    };
    match p.lx.next()? {
        JsTok::P(')') => {}
        t => return p.lx.err(format!("expected ')' after the options object, found {}", show_tok(&t))),
    }
    if p.lx.peek()? == JsTok::P(';') {
        p.lx.next()?;
    }
    let tail: String = cs[p.lx.i..].iter().collect();
    Ok(ScriptParts { head: head.to_string(), arg, tail, used_lenient_comma: p.used_lenient_comma })
}

fn interpret_options(arg: &Js) -> Result<(Vec<u16>, Option<Vec<u16>>, Option<BTreeMap<Vec<u16>, Vec<u16>>>, Option<BTreeMap<Vec<u16>, Vec<u16>>>), String> {
    let props = match arg {
        Js::Obj(p) => p,
        _ => return Err("options is not an object".into()),
    };
    let url_of = |v: &Js, what: &str| -> Result<Vec<u16>, String> {
        match v {
            Js::Call(f, args) if f == "createUrl" => match args.first() {
                Some(Js::Str(s)) => Ok(s.clone()),
                _ => Err(format!("{}: first argument of createUrl is not a string literal", what)),
            },
            other => Err(format!("{} is {:?}, expected createUrl('...')", what, other)),
        }
    };
    let map_of = |v: &Js, what: &str| -> Result<BTreeMap<Vec<u16>, Vec<u16>>, String> {
        match v {
            Js::Obj(ps) => {
                let mut m = BTreeMap::new();
                for (k, v) in ps {
                    match v {
                        Js::Str(s) => {
                            m.insert(k.clone(), s.clone()); // a repeated key overwrites, as in JavaScript
                        }
                        other => return Err(format!("{}[{}] is {:?}, expected a string literal", what, show16(k), other)),
                    }
                }
                Ok(m)
            }
            other => Err(format!("{} is {:?}, expected an object literal", what, other)),
        }
    };
    let (mut url, mut sub, mut headers, mut ws) = (None, None, None, None);
    for (k, v) in props {
        match String::from_utf16_lossy(k).as_str() {
            "url" => url = Some(url_of(v, "url")?),
            "subscriptionUrl" => sub = Some(url_of(v, "subscriptionUrl")?),
            "headers" => headers = Some(map_of(v, "headers")?),
            "wsConnectionParams" => ws = Some(map_of(v, "wsConnectionParams")?),
            _ => {}
        }
    }
    Ok((url.ok_or("no url property")?, sub, headers, ws))
}

// =========================================================================================================
// reading a page
// =========================================================================================================

struct Read {
    eval: Eval,
    skeleton: Vec<Tok>,
    other_scripts: Vec<(Vec<(String, String)>, String)>,
    head: String,
    tail: String,
    used_lenient_comma: bool,
}

fn read_page(page: &str, lenient_comma: bool) -> Result<Read, String> {
    let p = tokenize_html(page)?;
    if p.titles.len() != 1 {
        return Err(format!("{} <title> elements", p.titles.len()));
    }
    let module: Vec<usize> = (0..p.scripts.len()).filter(|i| p.scripts[*i].0.iter().any(|(k, v)| k == "type" && v == "module")).collect();
    if module.len() != 1 {
        return Err(format!("{} module scripts among {} script elements", module.len(), p.scripts.len()));
    }
    let parts = parse_module_script(&p.scripts[module[0]].1, lenient_comma)?;
    let (url, sub, headers, ws) = interpret_options(&parts.arg)?;
    let other_scripts = p.scripts.iter().enumerate().filter(|(i, _)| *i != module[0]).map(|(_, s)| s.clone()).collect();
    Ok(Read {
        eval: Eval { title: p.titles[0].clone(), url, sub, headers, ws },
        skeleton: p.skeleton,
        other_scripts,
        head: parts.head,
        tail: parts.tail,
        used_lenient_comma: parts.used_lenient_comma,
    })
}

/// The outcome a browser would observe: the evaluated configuration, or why the page / script is broken.
/// `reference` is the reading of the placeholder rendering of the same shape: everything that is not a
/// configured string must be identical to it (no configured value may end its string, script or HTML context).
fn observe(page: &str, reference: &Read, lenient_comma: bool) -> (Result<Eval, String>, bool) {
    match read_page(page, lenient_comma) {
        Err(e) => (Err(e), false),
        Ok(r) => {
            let res = if r.skeleton != reference.skeleton {
                let at = r.skeleton.iter().zip(reference.skeleton.iter()).position(|(a, b)| a != b).unwrap_or(r.skeleton.len().min(reference.skeleton.len()));
                Err(format!("the HTML structure differs from the template's at token {}: {:?}", at, r.skeleton.get(at)))
            } else if r.other_scripts != reference.other_scripts {
                Err("a script element other than the module script differs from the template's".to_string())
            } else if r.head != reference.head {
                Err("the module script differs from the template before the fetcher options".to_string())
            } else if r.tail != reference.tail {
                Err(format!("the module script differs from the template after the fetcher options: {:?}", r.tail.chars().take(80).collect::<String>()))
            } else {
                Ok(r.eval)
            };
            (res, r.used_lenient_comma)
        }
    }
}

// =========================================================================================================
// quirk model (known findings)
// =========================================================================================================

/// How the page with the OPEN findings' deviations looks: the placeholder rendering with each placeholder
/// replaced by the string as the deviating implementation emits it.
///  C34-F1: `& ' < > "` are written as decimal character references (`&#38;` ...) although script text is not entity-decoded;
///  C34-F2: backslash, LF, CR and NUL are written raw into the single-quoted JavaScript literal.
/// Characters of a finding that is not open are written as a correct JavaScript escape.
fn model_script_text(v: &str, f1: bool, f2: bool) -> String {
    let mut out = String::new();
    for c in v.chars() {
        match c {
            '&' | '\'' | '<' | '>' | '"' if f1 => out.push_str(&format!("&#{};", c as u32)),
            '\\' | '\n' | '\r' | '\0' if f2 => out.push(c),
            '&' | '\'' | '<' | '>' | '"' | '\\' | '\n' | '\r' | '\0' => out.push_str(&format!("\\u{:04x}", c as u32)),
            c => out.push(c),
        }
    }
    out
}
fn html_escape(v: &str) -> String {
    let mut out = String::new();
    for c in v.chars() {
        match c {
            '&' | '\'' | '<' | '>' | '"' => out.push_str(&format!("&#{};", c as u32)),
            c => out.push(c),
        }
    }
    out
}
fn model_page(cfg: &Cfg, placeholder_page: &str, f1: bool, f2: bool) -> Result<String, String> {
    let ph = cfg.placeholders();
    let mut page = placeholder_page.to_string();
    let mut sub = |from: &str, to: String| -> Result<(), String> {
        if page.matches(from).count() != 1 {
            return Err(format!("placeholder {} occurs {} times in the plain rendering", from, page.matches(from).count()));
        }
        page = page.replacen(from, &to, 1);
        Ok(())
    };
    sub(&ph.endpoint, model_script_text(&cfg.endpoint, f1, f2))?;
    if let (Some(p), Some(v)) = (&ph.sub, &cfg.sub) {
        sub(p, model_script_text(v, f1, f2))?;
    }
    if let (Some(p), Some(v)) = (&ph.title, &cfg.title) {
        sub(p, html_escape(v))?;
    }
    for (p, v) in ph.headers.iter().zip(cfg.headers.iter()).chain(ph.ws.iter().zip(cfg.ws.iter())) {
        sub(&p.0, model_script_text(&v.0, f1, f2))?;
        sub(&p.1, model_script_text(&v.1, f1, f2))?;
    }
    Ok(page)
}

const F1_CHARS: [char; 5] = ['&', '\'', '<', '>', '"'];
const F2_CHARS: [char; 4] = ['\\', '\n', '\r', '\0'];

#[derive(Clone, Copy)]
struct Open {
    f1: bool,
    f2: bool,
    f3: bool,
}

fn judge(cfg: &Cfg, open: Open) -> Case {
    let text = format!("{:?}", cfg);
    let strings = cfg.script_strings();
    let has_f1 = strings.iter().any(|s| s.contains(&F1_CHARS[..]));
    let has_f2 = strings.iter().any(|s| s.contains(&F2_CHARS[..]));
    let both_maps = !cfg.headers.is_empty() && !cfg.ws.is_empty();
    let all: Vec<&str> = strings.iter().copied().chain(cfg.title.as_deref()).collect();
    let case = |c: Case| {
        c.nontrivial(all.iter().any(|s| s.chars().any(|c| !(c.is_ascii_alphanumeric() || "/._:-".contains(c)))))
            .class_if(has_f1, "script-string:quote/amp/angle")
            .class_if(has_f2, "script-string:backslash/LF/CR/NUL")
            .class_if(strings.iter().any(|s| s.contains('\u{2028}') || s.contains('\u{2029}')), "script-string:U+2028/9")
            .class_if(strings.iter().any(|s| !s.is_ascii()), "script-string:non-ascii")
            .class_if(all.iter().any(|s| s.to_ascii_lowercase().contains("</script") || s.contains("<!--")), "script-closer")
            .class_if(cfg.title.as_deref().map_or(false, |t| t.contains(&F1_CHARS[..])), "title:markup")
            .class_if(both_maps, "headers+ws-params")
            .class_if(cfg.headers.len() + cfg.ws.len() >= 2, "several-map-entries")
            .class_if(cfg.sub.is_some(), "subscription-endpoint")
    };

    let placeholder_page = cfg.placeholders().render();
    // the reference reading tolerates the template's own missing comma only while that finding is open
    let reference = match read_page(&placeholder_page, open.f3 && both_maps) {
        Ok(r) => r,
        Err(e) => return case(Case::fail(text, format!("the page with plain alphanumeric values cannot be read: {}", e))),
    };
    let page = cfg.render();
    let want = cfg.expected();
    let (strict, _) = observe(&page, &reference, false);
    if strict.as_ref() == Ok(&want) {
        return case(Case::pass(text));
    }
    let describe = |r: &Result<Eval, String>| match r {
        Ok(e) => format!("evaluates to {}", e.show()),
        Err(e) => format!("is broken: {}", e),
    };
    let mut why = format!("the page {}; configured: {}", describe(&strict), want.show());

    // known findings: the page must read exactly as the quirk model of the OPEN findings predicts
    let a1 = open.f1 && has_f1;
    let a2 = open.f2 && has_f2;
    let f3_possible = open.f3 && both_maps;
    // C34-F3 is present iff the reading only gets past the headers object by tolerating the missing comma
    let (lenient, used) = if f3_possible { observe(&page, &reference, true) } else { (strict.clone(), false) };
    let a3 = f3_possible && used;
    let mut ids: Vec<String> = vec![];
    for (applies, id) in [(a1, F1), (a2, F2), (a3, F3)] {
        if applies {
            ids.push(id.to_string());
        }
    }
    if !a1 && !a2 {
        if a3 && lenient.as_ref() == Ok(&want) {
            return case(Case::known(text, ids));
        }
    } else {
        match model_page(cfg, &placeholder_page, open.f1, open.f2) {
            Ok(model) => {
                let (pred, _) = observe(&model, &reference, false);
                let mut explained = strict == pred;
                if f3_possible {
                    explained &= observe(&model, &reference, true) == (lenient, used);
                }
                if explained {
                    return case(Case::known(text, ids));
                }
                why.push_str(&format!("; the known-finding model predicts that the page {}", describe(&pred)));
            }
            Err(e) => why.push_str(&format!("; quirk model unavailable: {}", e)),
        }
    }
    case(Case::fail(text, why))
}

// =========================================================================================================
// generators
// =========================================================================================================

const PLAIN: &[&str] = &["/", "graphql", "/ws", "http://localhost:8000/", "api", "Authorization", "Bearer ", "token", "x-api-key", "v1", "?a=1", "%20", "#frag"];
const MARKUP: &[&str] = &[
    "'", "\"", "&", "<", ">", "</script>", "</SCRIPT >", "</script", "<!--", "-->", "<script>", "<!--<script>", "&amp;", "&#39;", "&lt;", "&quot", "</title>", "<b>", "');alert(1);('",
    "'+alert(1)+'", "&b=2", "a&lt",
];
const ESCAPES: &[&str] = &["\\", "\n", "\r", "\r\n", "\0", "\\'", "\\n", "\\x41", "\\u0041", "\\u{1F600}", "\\\\", "\\u", "\\x4", "\\0", "\\07", "\\\n"];
const OTHER: &[&str] = &[
    "\u{2028}", "\u{2029}", "é", "中", "😀", "\u{feff}", "\u{a0}", "${x}", "`", "//", "/*", "*/", "\t", "\u{b}", "\u{7f}", "\u{85}", ";", ",", ":", "{", "}", "(", ")", "-", "--", "--!", "!",
    " ", "=", "[token]", "\u{ffff}", "\u{10ffff}", "\u{1}",
];

fn gen_text(s: &mut dyn Src, f1: bool, f2: bool, max: usize) -> String {
    let n = 1 + s.choose(max);
    let mut out = String::new();
    for _ in 0..n {
        match s.weighted(&[4, if f1 { 4 } else { 0 }, if f2 { 4 } else { 0 }, 4, 2]) {
            0 => out.push_str(*pick(s, PLAIN)),
            1 => out.push_str(*pick(s, MARKUP)),
            // escape fragments keep their quote only where the characters of C34-F1 are allowed
            2 => out.extend(pick(s, ESCAPES).chars().filter(|c| f1 || !F1_CHARS.contains(c))),
            3 => out.push_str(*pick(s, OTHER)),
            _ => {
                let c = gen_char(s);
                // excluded characters are replaced, not rejected
                if (!f1 && F1_CHARS.contains(&c)) || (!f2 && F2_CHARS.contains(&c)) {
                    out.push('x');
                } else {
                    out.push(c);
                }
            }
        }
    }
    out
}

fn gen_map(s: &mut dyn Src, n: usize, f1: bool, f2: bool) -> Vec<(String, String)> {
    let mut m: Vec<(String, String)> = vec![];
    for i in 0..n {
        let mut k = gen_text(s, f1, f2, 2);
        // `__proto__` is not an own property in a JavaScript object literal; keys are distinct
        if k == "__proto__" || m.iter().any(|(k2, _)| *k2 == k) {
            k.push_str(&format!("{}", i));
        }
        m.push((k, gen_text(s, f1, f2, 3)));
    }
    m
}

/// `f1` / `f2`: may script strings contain the characters of C34-F1 / C34-F2; `both`: may headers and
/// connection parameters be configured together; `entries`: maximum entries per map
fn gen_cfg(s: &mut dyn Src, f1: bool, f2: bool, both: bool, entries: usize) -> Cfg {
    let endpoint = gen_text(s, f1, f2, 3);
    let sub = if s.bool() { Some(gen_text(s, f1, f2, 3)) } else { None };
    // the title is HTML text: every character class, whatever is open for script strings
    let title = if s.chance(2, 3) { Some(gen_text(s, true, true, 3)) } else { None };
    let (nh, nw) = match s.choose(4) {
        0 => (0, 0),
        1 => (1 + s.choose(entries), 0),
        2 => (0, 1 + s.choose(entries)),
        _ if both => (1 + s.choose(entries), 1 + s.choose(entries)),
        _ => (1 + s.choose(entries), 0),
    };
    Cfg { endpoint, sub, title, headers: gen_map(s, nh, f1, f2), ws: gen_map(s, nw, f1, f2) }
}

pub fn run(ctx: &mut Ctx) {
    ctx.rule = "configurations (endpoint, optional subscription endpoint, optional title, 0-3 headers, 0-3 connection parameters) whose strings are sequences of \
                plain URL/header fragments, markup fragments (quotes, &, <, >, </script, <!--, character references), escape fragments (backslash sequences, LF, CR, NUL), \
                U+2028/U+2029, non-ASCII and random characters; non-trivial = some configured string contains a character outside [A-Za-z0-9/._:-]; distinct by configuration"
        .into();
    ctx.assume("the page is read as a browser reads it: HTML newline normalisation, RCDATA title with character references, script text raw up to the first appropriate </script end tag (escape / double-escape states modelled), string literals by the ECMAScript rules for module code (U+2028/U+2029 raw inside a literal are legal, LF/CR are not)");
    ctx.assume("configuration is expected as string literals inside the object literal passed to createGraphiQLFetcher (keys url, subscriptionUrl, headers, wsConnectionParams; createUrl('...') around URLs), the template's own design; unknown extra properties are ignored");
    ctx.assume("title: CR / CR LF are compared after HTML newline normalisation and NUL as U+FFFD (the statement demands nothing about how a title carries them); a raw '&' followed by a letter in the title is reported as a failure because the named-reference table is not modelled (the escaper never emits it)");
    ctx.assume("header / parameter names are distinct and not `__proto__` (which a JavaScript object literal does not store as a property); version and credentials keep their defaults");
    let open = Open { f1: ctx.open(F1), f2: ctx.open(F2), f3: ctx.open(F3) };
    let n = ctx.tier.pick(80_000u32, 3_000_000);

    // regression witnesses of the findings and plain baselines
    let witnesses: Vec<(&str, Cfg)> = vec![
        ("plain", Cfg { endpoint: "/".into(), sub: Some("/ws".into()), title: Some("T".into()), headers: vec![("Authorization".into(), "Bearer x".into())], ws: vec![] }),
        ("C34-F1 apostrophe in endpoint", Cfg { endpoint: "/o'brien".into(), sub: None, title: None, headers: vec![], ws: vec![] }),
        ("C34-F1 ampersand in endpoint", Cfg { endpoint: "/graphql?a=1&b=2".into(), sub: None, title: None, headers: vec![], ws: vec![] }),
        ("C34-F2 backslash in header value", Cfg { endpoint: "/".into(), sub: None, title: None, headers: vec![("X-Path".into(), "C:\\new".into())], ws: vec![] }),
        ("C34-F2 trailing backslash", Cfg { endpoint: "/a\\".into(), sub: None, title: None, headers: vec![], ws: vec![] }),
        ("C34-F2 line feed", Cfg { endpoint: "/".into(), sub: Some("/ws\n".into()), title: None, headers: vec![], ws: vec![] }),
        ("C34-F3 headers and connection parameters", Cfg { endpoint: "/".into(), sub: None, title: None, headers: vec![("a".into(), "b".into())], ws: vec![("c".into(), "d".into())] }),
        ("title with markup", Cfg { endpoint: "/".into(), sub: None, title: Some("</title><script>alert(1)</script>&amp;'\"".into()), headers: vec![], ws: vec![] }),
    ];
    for (name, cfg) in &witnesses {
        let c = judge(cfg, open).class("witness");
        if ctx.check_case("witness", c, json!({"witness": name})) {
            return;
        }
    }

    // main search: the constructs of open findings are excluded by construction
    ctx.stream("main", n, 96, |s| judge(&gen_cfg(s, !open.f1, !open.f2, !open.f3, 3), open).class("main"));
    for (f, o) in [(F1, open.f1), (F2, open.f2), (F3, open.f3)] {
        if o {
            ctx.excluded(f);
        }
    }
    if ctx.violations() > 0 {
        return;
    }
    // probes: one finding's construct enabled at a time (at most one entry per map, so that the reading of a
    // broken page does not depend on HashMap iteration order), then all together
    ctx.stream("probe-markup", n / 4, 64, |s| judge(&gen_cfg(s, true, !open.f2, !open.f3, 1), open).class("probe"));
    ctx.stream("probe-escapes", n / 4, 64, |s| judge(&gen_cfg(s, !open.f1, true, !open.f3, 1), open).class("probe"));
    ctx.stream("probe-both-maps", n / 8, 64, |s| judge(&gen_cfg(s, !open.f1, !open.f2, true, 1), open).class("probe"));
    ctx.stream("probe-all", n / 4, 64, |s| judge(&gen_cfg(s, true, true, true, 1), open).class("probe"));

    ctx.floor("script-string:U+2028/9", 1_000);
    ctx.floor("script-string:non-ascii", 5_000);
    ctx.floor("script-string:quote/amp/angle", 5_000);
    ctx.floor("script-string:backslash/LF/CR/NUL", 5_000);
    ctx.floor("script-closer", 1_000);
    ctx.floor("title:markup", 3_000);
    ctx.floor("headers+ws-params", 2_000);
    ctx.floor("several-map-entries", 3_000);
    ctx.floor("subscription-endpoint", 5_000);
}
