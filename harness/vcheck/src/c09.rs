//! C09 — strict validation rejects exactly the documents the GraphQL specification calls invalid.
//!
//! Domain: valid documents from the typed generator over random dynamic schemas and over a derive-built static
//! schema, and variants produced by rule-targeted mutation operators. The REFERENCE validator
//! (`vgql::refvalidate`, written from the specification) decides validity and names the rules; an operator's
//! intent is never trusted. Observation: a recording extension's `validation` hook, the responses, and the
//! resolver log (dynamic) / resolver counter (static).
//!
//! Oracle (ValidationMode::Strict, the default). Reference says invalid: the request must be answered with errors,
//! every error with a location, and no resolver may have run. Reference says valid: the validation stage must pass
//! and (fault-free data) no response may carry an error. A deviation is attributed to OPEN known findings only if it
//! is exactly what their quirks (switches of the reference validator) predict for the validation stage; the
//! constructs of open findings are left out of the main streams by construction and exercised by one probe stream
//! per finding plus minimised witnesses.
use async_graphql::extensions::{Extension, ExtensionContext, ExtensionFactory, NextValidation};
use async_graphql::{Request, Response, ServerError, ValidationResult, Variables};
use futures_util::StreamExt;
use indexmap::IndexMap;
use std::sync::{Arc, Mutex};
use vcore::{Case, Ctx, Src};
use vgql::ast::*;
use vgql::coerce::CV;
use vgql::gensch::*;
use vgql::gentyped::*;
use vgql::print::print_plain;
use vgql::refvalidate::{builtin_directives, validate_full, DirDef, Input, Quirks, Report, RULES};
use vgql::sch::*;
use vgql::world::*;
use vschemas::dynbuild::build_dynamic;
use vschemas::rt::Rt;

// ---------------------------------------------------------------------------------------------------------------
// the derive-built static schema

mod st {
    use async_graphql::*;
    use futures_util::stream::{self, Stream};
    use std::sync::atomic::{AtomicU64, Ordering};

    /// number of resolver invocations (every resolver of the schema counts itself)
    pub static CALLS: AtomicU64 = AtomicU64::new(0);
    fn hit() {
        CALLS.fetch_add(1, Ordering::SeqCst);
    }

    #[derive(Enum, Copy, Clone, Eq, PartialEq)]
    pub enum Color {
        Red,
        Green,
        Blue,
    }

    #[derive(InputObject)]
    pub struct Point {
        pub x: i32,
        #[graphql(default = 7)]
        pub y: i32,
        pub label: Option<String>,
        pub tags: Option<Vec<String>>,
    }

    #[derive(InputObject)]
    pub struct Filter {
        pub color: Option<Color>,
        pub near: Option<Point>,
        #[graphql(default = 10)]
        pub limit: i32,
        pub ids: Option<Vec<ID>>,
        pub ratio: Option<f64>,
    }

    #[derive(OneofObject)]
    pub enum Key {
        Id(ID),
        Name(String),
        At(Point),
        Nums(Vec<i32>),
    }

    pub struct Dog;
    pub struct Cat;
    pub struct Robot;

    #[Object]
    impl Dog {
        async fn id(&self) -> ID {
            hit();
            ID::from("d1")
        }
        async fn name(&self) -> String {
            hit();
            "Rex".into()
        }
        async fn legs(&self, min: Option<i32>) -> i32 {
            hit();
            min.unwrap_or(0).max(4)
        }
        async fn friend(&self) -> Option<Animal> {
            hit();
            Some(Animal::Cat(Cat))
        }
        async fn barks(&self) -> bool {
            hit();
            true
        }
        async fn color(&self) -> Color {
            hit();
            Color::Red
        }
    }

    #[Object]
    impl Cat {
        async fn id(&self) -> ID {
            hit();
            ID::from("c1")
        }
        async fn name(&self) -> String {
            hit();
            "Tom".into()
        }
        async fn legs(&self, min: Option<i32>) -> i32 {
            hit();
            min.unwrap_or(0).max(4)
        }
        async fn friend(&self) -> Option<Animal> {
            hit();
            None
        }
        async fn lives(&self) -> i32 {
            hit();
            9
        }
        /// nullable here, non-null on Dog: different response shapes
        async fn color(&self) -> Option<Color> {
            hit();
            Some(Color::Blue)
        }
    }

    #[Object]
    impl Robot {
        /// Int! here, ID! on Dog
        async fn id(&self) -> i32 {
            hit();
            1
        }
        /// nullable here, non-null on Dog
        async fn name(&self) -> Option<String> {
            hit();
            None
        }
        async fn model(&self) -> i32 {
            hit();
            800
        }
        async fn parts(&self) -> Vec<String> {
            hit();
            vec!["arm".into()]
        }
    }

    #[derive(Interface)]
    #[graphql(field(name = "id", ty = "ID"), field(name = "name", ty = "String"), field(name = "legs", ty = "i32", arg(name = "min", ty = "Option<i32>")), field(name = "friend", ty = "Option<Animal>"))]
    pub enum Animal {
        Dog(Dog),
        Cat(Cat),
    }

    #[derive(Union)]
    pub enum Thing {
        Dog(Dog),
        Robot(Robot),
    }

    pub struct Query;
    #[Object]
    impl Query {
        async fn animals(&self) -> Vec<Animal> {
            hit();
            vec![Animal::Dog(Dog), Animal::Cat(Cat)]
        }
        async fn animal(&self, key: Key) -> Option<Animal> {
            hit();
            match key {
                Key::Id(_) => Some(Animal::Dog(Dog)),
                Key::Name(_) => Some(Animal::Cat(Cat)),
                _ => None,
            }
        }
        async fn things(&self, filter: Option<Filter>, #[graphql(default = 10)] first: i32) -> Vec<Thing> {
            hit();
            let _ = (filter.map(|f| f.limit), first);
            vec![Thing::Dog(Dog), Thing::Robot(Robot)]
        }
        async fn dog(&self) -> Dog {
            hit();
            Dog
        }
        async fn robot(&self) -> Option<Robot> {
            hit();
            Some(Robot)
        }
        async fn sum(&self, xs: Vec<i32>) -> i32 {
            hit();
            xs.iter().fold(0i32, |a, b| a.wrapping_add(*b))
        }
        async fn matrix(&self, m: Option<Vec<Vec<i32>>>) -> i32 {
            hit();
            m.map_or(0, |m| m.len() as i32)
        }
        async fn echo(&self, p: Point, #[graphql(default_with = "Color::Green")] c: Color) -> String {
            hit();
            format!("{}/{}/{}", p.x, p.y, c == Color::Green)
        }
        async fn flag(&self, on: bool, ratio: Option<f64>, id: Option<ID>, text: Option<String>) -> bool {
            hit();
            let _ = (ratio, id, text);
            on
        }
    }

    pub struct Mutation;
    #[Object]
    impl Mutation {
        async fn rename(&self, id: ID, name: String) -> Dog {
            hit();
            let _ = (id, name);
            Dog
        }
        async fn bump(&self, #[graphql(default = 1)] by: i32) -> i32 {
            hit();
            by
        }
    }

    pub struct Subscription;
    #[Subscription]
    impl Subscription {
        async fn ticks(&self, #[graphql(default = 2)] n: i32) -> impl Stream<Item = i32> {
            hit();
            stream::iter(0..n.clamp(0, 3))
        }
        async fn events(&self) -> impl Stream<Item = Thing> {
            hit();
            stream::iter(vec![Thing::Dog(Dog), Thing::Robot(Robot)])
        }
    }

    pub type S = Schema<Query, Mutation, Subscription>;
}

// ---------------------------------------------------------------------------------------------------------------
// observation

type ValLog = Arc<Mutex<Vec<Result<(), Vec<ServerError>>>>>;

#[derive(Clone, Default)]
struct Tap(ValLog);
impl ExtensionFactory for Tap {
    fn create(&self) -> Arc<dyn Extension> {
        Arc::new(TapExt(self.0.clone()))
    }
}
struct TapExt(ValLog);
#[async_trait::async_trait]
impl Extension for TapExt {
    async fn validation(&self, ctx: &ExtensionContext<'_>, next: NextValidation<'_>) -> Result<ValidationResult, Vec<ServerError>> {
        let r = next.run(ctx).await;
        self.0.lock().unwrap().push(match &r {
            Ok(_) => Ok(()),
            Err(e) => Err(e.clone()),
        });
        r
    }
}

struct Outcome {
    /// what the validation stage returned (None: the request did not reach it)
    validation: Option<Result<(), Vec<ServerError>>>,
    responses: Vec<Response>,
    resolver_calls: u64,
}

fn request(text: &str, vars: &IndexMap<String, CV>, op_name: Option<&str>) -> Request {
    let j = serde_json::Value::Object(vars.iter().map(|(k, v)| (k.clone(), v.to_json())).collect());
    let mut r = Request::new(text).variables(Variables::from_json(j));
    if let Some(n) = op_name {
        r = r.operation_name(n);
    }
    r
}

fn run_static(schema: &st::S, tap: &Tap, req: Request, stream: bool) -> Outcome {
    tap.0.lock().unwrap().clear();
    let before = st::CALLS.load(std::sync::atomic::Ordering::SeqCst);
    let responses = if stream { vcore::det::block_on(schema.execute_stream(req).collect::<Vec<_>>()) } else { vec![vcore::det::block_on(schema.execute(req))] };
    let resolver_calls = st::CALLS.load(std::sync::atomic::Ordering::SeqCst) - before;
    Outcome { validation: tap.0.lock().unwrap().pop(), responses, resolver_calls }
}

fn run_dynamic(sch: &Sch, world: &World, req: Request, stream: bool) -> Result<Outcome, String> {
    let rt = Rt::new(world.clone());
    let tap = Tap::default();
    let t2 = tap.clone();
    let schema = build_dynamic(sch, &rt, move |b| b.extension(t2)).map_err(|e| format!("generated schema does not build: {}", e))?;
    let responses = if stream { vcore::det::block_on(schema.execute_stream(req).collect::<Vec<_>>()) } else { vec![vcore::det::block_on(schema.execute(req))] };
    let resolver_calls = rt.take_log().len() as u64;
    let validation = tap.0.lock().unwrap().pop();
    Ok(Outcome { validation, responses, resolver_calls })
}

/// the harness's custom scalars accept the integers 0..=9 (vschemas::dynbuild::custom_scalar_valid)
fn custom_scalar_ok(_name: &str, v: &CV) -> bool {
    matches!(v, CV::Int(i) if (0..=9).contains(i))
}

// ---------------------------------------------------------------------------------------------------------------
// typed traversal of a document: the places mutation operators work on

enum Site<'x> {
    Frag(&'x mut FragDef),
    VarDef(&'x mut VarDef),
    /// a selection set whose parent type is known; `root_of` = it belongs to the root level of an operation
    Sel { sel: &'x mut SelSet, parent: &'x str, root_of: Option<OpKind> },
    Field { f: &'x mut Field, parent: &'x str, def: Option<&'x FieldDef> },
    Inline { i: &'x mut Inline },
    Spread { sp: &'x mut Spread },
    /// a position where a value of type `ty` is expected (argument, list item, input field, variable default)
    Value { v: &'x mut PVal, ty: &'x Ty, konst: bool },
    Dirs { ds: &'x mut Vec<Directive>, location: &'static str },
}

fn field_def(sch: &Sch, parent: &str, name: &str) -> Option<FieldDef> {
    if name == "__typename" {
        return Some(FieldDef { name: name.into(), args: vec![], ty: Ty::parse("String!"), desc: None, deprecated: None });
    }
    sch.field(parent, name).cloned()
}

struct Walk<'s> {
    sch: &'s Sch,
    dirs: Vec<DirDef>,
    /// leave `__typename` selections alone (construct of C09-F11)
    skip_typename: bool,
}

impl<'s> Walk<'s> {
    fn value(&self, v: &mut PVal, ty: &Ty, konst: bool, cb: &mut dyn FnMut(Site<'_>)) {
        cb(Site::Value { v: &mut *v, ty, konst });
        match (&mut v.v, ty.nullable()) {
            (Val::List(items), Ty::List(inner)) => {
                for it in items.iter_mut() {
                    self.value(it, inner, konst, cb);
                }
            }
            (Val::Obj(fields), Ty::Named(n)) => {
                if let Some(td) = self.sch.ty(n).filter(|t| t.kind == Kind::Input) {
                    for (k, fv) in fields.iter_mut() {
                        if let Some(fd) = td.input_fields.iter().find(|f| f.name == k.s) {
                            self.value(fv, &fd.ty, konst, cb);
                        }
                    }
                }
            }
            _ => {}
        }
    }

    fn dirs(&self, ds: &mut Vec<Directive>, location: &'static str, cb: &mut dyn FnMut(Site<'_>)) {
        cb(Site::Dirs { ds: &mut *ds, location });
        for d in ds.iter_mut() {
            if let Some(def) = self.dirs.iter().find(|x| x.name == d.name.s) {
                for (n, v) in d.args.iter_mut() {
                    if let Some(ad) = def.args.iter().find(|a| a.name == n.s) {
                        self.value(v, &ad.ty, false, cb);
                    }
                }
            }
        }
    }

    fn selset(&self, sel: &mut SelSet, parent: &str, root_of: Option<OpKind>, cb: &mut dyn FnMut(Site<'_>)) {
        cb(Site::Sel { sel: &mut *sel, parent, root_of });
        for it in sel.items.iter_mut() {
            match it {
                Selection::Field(f) => {
                    if self.skip_typename && f.name.s == "__typename" {
                        continue;
                    }
                    let def = field_def(self.sch, parent, &f.name.s);
                    cb(Site::Field { f: &mut *f, parent, def: def.as_ref() });
                    if let Some(d) = &def {
                        for (n, v) in f.args.iter_mut() {
                            if let Some(ad) = d.arg(&n.s) {
                                self.value(v, &ad.ty, false, cb);
                            }
                        }
                    }
                    self.dirs(&mut f.directives, "FIELD", cb);
                    if let Some(d) = &def {
                        let base = d.ty.base();
                        if self.sch.is_composite(base) && !f.sel.items.is_empty() {
                            self.selset(&mut f.sel, base, None, cb);
                        }
                    }
                }
                Selection::Inline(i) => {
                    cb(Site::Inline { i: &mut *i });
                    self.dirs(&mut i.directives, "INLINE_FRAGMENT", cb);
                    let p = i.cond.as_ref().map(|c| c.s.clone()).unwrap_or_else(|| parent.to_string());
                    if self.sch.is_composite(&p) && !i.sel.items.is_empty() {
                        self.selset(&mut i.sel, &p, root_of, cb);
                    }
                }
                Selection::Spread(sp) => {
                    cb(Site::Spread { sp: &mut *sp });
                    self.dirs(&mut sp.directives, "FRAGMENT_SPREAD", cb);
                }
            }
        }
    }
}

fn each_site(doc: &mut Doc, sch: &Sch, skip_typename: bool, cb: &mut dyn FnMut(Site<'_>)) {
    let w = Walk { sch, dirs: builtin_directives(), skip_typename };
    for def in doc.defs.iter_mut() {
        match def {
            Def::Op(o) => {
                let kind = o.kind;
                for vd in o.vars.iter_mut() {
                    cb(Site::VarDef(&mut *vd));
                    let ty = vd.ty.ty.clone();
                    if sch.is_input(ty.base()) {
                        if let Some(d) = vd.default.as_mut() {
                            w.value(d, &ty, true, cb);
                        }
                    }
                    w.dirs(&mut vd.directives, "VARIABLE_DEFINITION", cb);
                }
                let loc = match kind {
                    OpKind::Query => "QUERY",
                    OpKind::Mutation => "MUTATION",
                    OpKind::Subscription => "SUBSCRIPTION",
                };
                w.dirs(&mut o.directives, loc, cb);
                if let Some(root) = sch.root(kind) {
                    w.selset(&mut o.sel, root, Some(kind), cb);
                }
            }
            Def::Frag(f) => {
                cb(Site::Frag(&mut *f));
                w.dirs(&mut f.directives, "FRAGMENT_DEFINITION", cb);
                let c = f.cond.s.clone();
                if sch.is_composite(&c) {
                    w.selset(&mut f.sel, &c, None, cb);
                }
            }
        }
    }
}

/// apply `apply` to a randomly chosen site among those satisfying `test`; false if there is none
fn mutate_nth(doc: &mut Doc, sch: &Sch, skip_typename: bool, s: &mut dyn Src, test: &dyn Fn(&Site<'_>) -> bool, apply: &mut dyn FnMut(Site<'_>, &mut dyn Src)) -> bool {
    let mut n = 0usize;
    each_site(doc, sch, skip_typename, &mut |site| {
        if test(&site) {
            n += 1
        }
    });
    if n == 0 {
        return false;
    }
    let k = s.choose(n);
    let mut i = 0usize;
    let mut done = false;
    each_site(doc, sch, skip_typename, &mut |site| {
        if !done && test(&site) {
            if i == k {
                apply(site, s);
                done = true;
            }
            i += 1;
        }
    });
    true
}

fn fld(name: &str, alias: Option<&str>) -> Field {
    let mut f = Field::new(name);
    f.alias = alias.map(Name::new);
    f
}
fn typename_sel() -> SelSet {
    SelSet::new(vec![Selection::Field(Field::new("__typename"))])
}
fn inline(cond: Option<&str>, sel: SelSet) -> Selection {
    Selection::Inline(Inline { pos: Pos::default(), cond: cond.map(Name::new), cond_pos: Pos::default(), directives: vec![], sel })
}
fn spread(name: &str) -> Selection {
    Selection::Spread(Spread { pos: Pos::default(), name: Name::new(name), directives: vec![] })
}
fn frag(name: &str, cond: &str, sel: SelSet) -> Def {
    Def::Frag(FragDef { pos: Pos::default(), name: Name::new(name), cond: Name::new(cond), cond_pos: Pos::default(), directives: vec![], sel })
}
fn vardef(name: &str, ty: Ty, default: Option<Val>) -> VarDef {
    VarDef { pos: Pos::default(), name: Name::new(name), ty: PTy { pos: Pos::default(), ty }, default: default.map(PVal::new), directives: vec![] }
}
/// leaf fields of an object/interface type that can be selected without arguments
fn plain_leaf_fields(sch: &Sch, ty: &str) -> Vec<FieldDef> {
    sch.ty(ty).map(|t| t.fields.iter().filter(|f| sch.is_leaf(f.ty.base()) && f.args.iter().all(|a| !a.ty.is_nn() || a.default.is_some())).cloned().collect()).unwrap_or_default()
}
fn plain_composite_fields(sch: &Sch, ty: &str) -> Vec<FieldDef> {
    sch.ty(ty).map(|t| t.fields.iter().filter(|f| sch.is_composite(f.ty.base()) && f.args.iter().all(|a| !a.ty.is_nn() || a.default.is_some())).cloned().collect()).unwrap_or_default()
}

// ---------------------------------------------------------------------------------------------------------------
// the request under mutation

/// constructs of OPEN findings that the main streams leave out (the probe streams put them back)
#[derive(Clone, Copy, Default)]
struct Excl {
    var_position: bool,
    cross_condition_conflicts: bool,
    subscription_roots: bool,
    duplicate_input_fields: bool,
    non_object_for_input: bool,
    string_for_enum: bool,
    variable_directives: bool,
    unknown_list_default: bool,
    typename: bool,
    int_range: bool,
    /// probe streams: the one way an input object literal is broken (see `wrong_literal`)
    force_input_kind: Option<u8>,
}

struct M<'a> {
    sch: &'a Sch,
    doc: Doc,
    vars: IndexMap<String, CV>,
    op_name: Option<String>,
    /// type-system definitions appended to the request text
    extra_text: String,
    extra_defs: usize,
    excl: Excl,
}

impl<'a> M<'a> {
    fn first_op(&mut self) -> &mut OpDef {
        match self.doc.defs.iter_mut().find(|d| matches!(d, Def::Op(_))) {
            Some(Def::Op(o)) => o,
            _ => unreachable!("generated documents have an operation"),
        }
    }
}

/// a literal that the type's input coercion must reject (None: the type has no such literal in this domain)
fn wrong_literal(m: &M<'_>, ty: &Ty, cur: &Val, s: &mut dyn Src) -> Option<Val> {
    let sch = m.sch;
    if ty.is_nn() && m.excl.force_input_kind.is_none() && s.chance(1, 5) {
        return Some(Val::Null);
    }
    match ty.nullable() {
        Ty::NonNull(_) => None,
        Ty::List(inner) => {
            let w = wrong_literal(m, inner, &Val::Null, s)?;
            // inside a list, or as the single value that list coercion wraps
            Some(if s.bool() { Val::List(vec![PVal::new(w)]) } else { w })
        }
        Ty::Named(n) => {
            let pick = |s: &mut dyn Src, xs: Vec<Val>| -> Option<Val> {
                let i = s.choose(xs.len());
                Some(xs[i].clone())
            };
            let one = |v: Val| Val::List(vec![PVal::new(v)]);
            match n.as_str() {
                "Int" => {
                    let mut xs = vec![Val::Str("1".into()), Val::Float("1.5".into()), Val::Bool(true), Val::Enum("ONE".into()), Val::Obj(vec![]), Val::Float("1e3".into()), Val::Int("9223372036854775808".into())];
                    if !m.excl.int_range {
                        xs.extend([Val::Int("2147483648".into()), Val::Int("-2147483649".into())]);
                    }
                    pick(s, xs)
                }
                "Float" => pick(s, vec![Val::Str("1.5".into()), Val::Bool(false), Val::Enum("NaN".into()), Val::Obj(vec![])]),
                "String" => pick(s, vec![Val::Int("1".into()), Val::Float("0.5".into()), Val::Bool(true), Val::Enum("abc".into()), Val::Obj(vec![])]),
                "Boolean" => pick(s, vec![Val::Int("1".into()), Val::Str("true".into()), Val::Enum("TRUE".into()), Val::Float("0.0".into())]),
                "ID" => pick(s, vec![Val::Float("1.5".into()), Val::Bool(true), Val::Enum("id1".into()), Val::Obj(vec![])]),
                _ => {
                    let td = sch.ty(n)?;
                    match td.kind {
                        Kind::Enum => {
                            let mut xs = vec![Val::Enum("NOPE_9".into()), Val::Int("0".into()), Val::Bool(true), one(Val::Enum("NOPE_9".into())), Val::Str("NOPE_9".into())];
                            if !m.excl.string_for_enum {
                                xs.push(Val::Str(td.values[s.choose(td.values.len())].name.clone()));
                            }
                            pick(s, xs)
                        }
                        Kind::Input => {
                            let base = match cur {
                                Val::Obj(f) => f.clone(),
                                _ => match gen_input_literal(sch, &Ty::named(n), s, 2) {
                                    Val::Obj(f) => f,
                                    _ => vec![],
                                },
                            };
                            let mut kinds: Vec<u8> = vec![1]; // unknown field
                            if !m.excl.non_object_for_input {
                                kinds.push(0);
                            }
                            if !td.one_of && td.input_fields.iter().any(|f| f.ty.is_nn() && f.default.is_none()) {
                                kinds.push(2);
                            }
                            if !base.is_empty() && !m.excl.duplicate_input_fields {
                                kinds.push(3);
                            }
                            if td.one_of {
                                kinds.extend([4, 5, 6]);
                            }
                            let mut f = base;
                            let kind = match m.excl.force_input_kind {
                                Some(k) if kinds.contains(&k) => k,
                                Some(_) => return None,
                                None => kinds[s.choose(kinds.len())],
                            };
                            match kind {
                                0 => return pick(s, vec![Val::Int("1".into()), Val::Str("x".into()), Val::Bool(true), Val::Enum("E".into()), Val::Float("1.5".into())]),
                                1 => f.push((Name::new("zz9"), PVal::new(Val::Int("1".into())))),
                                2 => {
                                    let req: Vec<&ArgDef> = td.input_fields.iter().filter(|f| f.ty.is_nn() && f.default.is_none()).collect();
                                    let r = req[s.choose(req.len())].name.clone();
                                    f.retain(|(k, _)| k.s != r);
                                }
                                3 => {
                                    let d = f[s.choose(f.len())].clone();
                                    f.push(d);
                                }
                                4 => f.clear(),
                                5 => {
                                    // a second field
                                    let other: Vec<&ArgDef> = td.input_fields.iter().filter(|x| !f.iter().any(|(k, _)| k.s == x.name)).collect();
                                    if other.is_empty() {
                                        f.clear();
                                    } else {
                                        let o = other[s.choose(other.len())];
                                        let v = gen_input_literal(sch, &Ty::nn(o.ty.clone()), s, 2);
                                        f.push((Name::new(o.name.clone()), PVal::new(v)));
                                    }
                                }
                                _ => {
                                    let o = &td.input_fields[s.choose(td.input_fields.len())];
                                    f = vec![(Name::new(o.name.clone()), PVal::new(Val::Null))];
                                }
                            }
                            Some(Val::Obj(f))
                        }
                        // custom scalars: what they accept is the scalar's business
                        _ => None,
                    }
                }
            }
        }
    }
}

type Operator = fn(&mut M<'_>, &mut dyn Src) -> bool;

fn op_unknown_field(m: &mut M<'_>, s: &mut dyn Src) -> bool {
    let sch = m.sch;
    if s.chance(1, 4) {
        // the query root's meta fields anywhere else
        let q = sch.query.clone();
        return mutate_nth(&mut m.doc, sch, m.excl.typename, s, &|x| matches!(x, Site::Sel { parent, root_of, .. } if *parent != q && root_of.is_none()), &mut |x, s| {
            if let Site::Sel { sel, .. } = x {
                let mut f = if s.bool() { fld("__schema", Some("zs")) } else { fld("__type", Some("zt")) };
                if f.name.s == "__type" {
                    f.args.push((Name::new("name"), PVal::new(Val::Str("Query".into()))));
                }
                f.sel = SelSet::new(vec![Selection::Field(Field::new("__typename"))]);
                sel.items.push(Selection::Field(f));
            }
        });
    }
    mutate_nth(&mut m.doc, sch, m.excl.typename, s, &|x| matches!(x, Site::Field { .. }), &mut |x, s| {
        if let Site::Field { f, parent, .. } = x {
            // an unknown name, or a field of another type
            let other: Vec<String> = sch.types.values().filter(|t| matches!(t.kind, Kind::Object | Kind::Interface) && t.name != parent).flat_map(|t| t.fields.iter().map(|f| f.name.clone())).filter(|n| sch.field(parent, n).is_none()).collect();
            f.name = Name::new(if other.is_empty() || s.bool() { "zz9".to_string() } else { other[s.choose(other.len())].clone() });
        }
    })
}

fn op_unknown_argument(m: &mut M<'_>, s: &mut dyn Src) -> bool {
    let sch = m.sch;
    if s.chance(1, 4) {
        return mutate_nth(&mut m.doc, sch, m.excl.typename, s, &|x| matches!(x, Site::Dirs { ds, .. } if !ds.is_empty()), &mut |x, _| {
            if let Site::Dirs { ds, .. } = x {
                ds[0].args.push((Name::new("zz9"), PVal::new(Val::Bool(true))));
            }
        });
    }
    mutate_nth(&mut m.doc, sch, m.excl.typename, s, &|x| matches!(x, Site::Field { def: Some(_), .. }), &mut |x, s| {
        if let Site::Field { f, .. } = x {
            let v = if s.bool() { Val::Int("1".into()) } else { Val::Null };
            f.args.push((Name::new("zz9"), PVal::new(v)));
        }
    })
}

fn op_unknown_type(m: &mut M<'_>, s: &mut dyn Src) -> bool {
    let sch = m.sch;
    let drop_default = m.excl.unknown_list_default;
    mutate_nth(&mut m.doc, sch, m.excl.typename, s, &|x| matches!(x, Site::Inline { i, .. } if i.cond.is_some()) || matches!(x, Site::Frag(_) | Site::VarDef(_)), &mut |x, _| match x {
        Site::Inline { i, .. } => i.cond = Some(Name::new("Zz9")),
        Site::Frag(f) => f.cond = Name::new("Zz9"),
        Site::VarDef(v) => {
            if drop_default {
                v.default = None;
            }
            fn rebase(t: &Ty) -> Ty {
                match t {
                    Ty::Named(_) => Ty::named("Zz9"),
                    Ty::List(i) => Ty::list(rebase(i)),
                    Ty::NonNull(i) => Ty::nn(rebase(i)),
                }
            }
            v.ty.ty = rebase(&v.ty.ty);
        }
        _ => {}
    })
}

fn op_unknown_directive(m: &mut M<'_>, s: &mut dyn Src) -> bool {
    let sch = m.sch;
    let no_vardefs = m.excl.variable_directives;
    mutate_nth(&mut m.doc, sch, m.excl.typename, s, &|x| matches!(x, Site::Dirs { location, .. } if !(no_vardefs && *location == "VARIABLE_DEFINITION")), &mut |x, s| {
        if let Site::Dirs { ds, .. } = x {
            let mut d = Directive::new("zz9", vec![]);
            if s.bool() {
                d.args.push((Name::new("if"), PVal::new(Val::Bool(true))));
            }
            ds.push(d);
        }
    })
}

fn op_unknown_fragment(m: &mut M<'_>, s: &mut dyn Src) -> bool {
    let sch = m.sch;
    mutate_nth(&mut m.doc, sch, m.excl.typename, s, &|x| matches!(x, Site::Sel { root_of, .. } if *root_of != Some(OpKind::Subscription)) || matches!(x, Site::Spread { .. }), &mut |x, _| match x {
        Site::Sel { sel, .. } => sel.items.push(spread("Zz9")),
        Site::Spread { sp } => sp.name = Name::new("Zz9"),
        _ => {}
    })
}

fn op_wrong_literal(m: &mut M<'_>, s: &mut dyn Src) -> bool {
    let sch = m.sch;
    // make sure there is a typed value somewhere: give an argument to a field that takes one
    if s.chance(1, 3) {
        mutate_nth(&mut m.doc, sch, m.excl.typename, s, &|x| matches!(x, Site::Field { f, def: Some(d), .. } if d.args.iter().any(|a| !f.args.iter().any(|(n, _)| n.s == a.name))), &mut |x, s| {
            if let Site::Field { f, def: Some(d), .. } = x {
                let missing: Vec<&ArgDef> = d.args.iter().filter(|a| !f.args.iter().any(|(n, _)| n.s == a.name)).collect();
                let a = missing[s.choose(missing.len())];
                f.args.push((Name::new(a.name.clone()), PVal::new(gen_input_literal(sch, &a.ty, s, 0))));
            }
        });
    }
    let snapshot = M { sch, doc: Doc::default(), vars: IndexMap::new(), op_name: None, extra_text: String::new(), extra_defs: 0, excl: m.excl };
    let mut changed = false;
    mutate_nth(&mut m.doc, sch, m.excl.typename, s, &|x| matches!(x, Site::Value { ty, .. } if sch.kind(ty.base()) != Some(Kind::Scalar) || BUILTIN_SCALARS.contains(&ty.base())), &mut |x, s| {
        if let Site::Value { v, ty, .. } = x {
            if let Some(w) = wrong_literal(&snapshot, ty, &v.v, s) {
                v.v = w;
                changed = true;
            }
        }
    });
    changed
}

fn op_missing_required_argument(m: &mut M<'_>, s: &mut dyn Src) -> bool {
    let sch = m.sch;
    if s.chance(1, 4) {
        return mutate_nth(&mut m.doc, sch, m.excl.typename, s, &|x| matches!(x, Site::Dirs { ds, .. } if ds.iter().any(|d| !d.args.is_empty())), &mut |x, _| {
            if let Site::Dirs { ds, .. } = x {
                if let Some(d) = ds.iter_mut().find(|d| !d.args.is_empty()) {
                    d.args.clear();
                }
            }
        });
    }
    let required = |d: &FieldDef, f: &Field| d.args.iter().any(|a| a.ty.is_nn() && a.default.is_none() && f.args.iter().any(|(n, _)| n.s == a.name));
    mutate_nth(&mut m.doc, sch, m.excl.typename, s, &|x| matches!(x, Site::Field { f, def: Some(d), .. } if required(d, f)), &mut |x, s| {
        if let Site::Field { f, def: Some(d), .. } = x {
            let req: Vec<&ArgDef> = d.args.iter().filter(|a| a.ty.is_nn() && a.default.is_none()).collect();
            let r = req[s.choose(req.len())].name.clone();
            if s.bool() {
                f.args.retain(|(n, _)| n.s != r);
            } else if let Some((_, v)) = f.args.iter_mut().find(|(n, _)| n.s == r) {
                v.v = Val::Null;
            }
        }
    })
}

fn op_duplicate_argument(m: &mut M<'_>, s: &mut dyn Src) -> bool {
    let sch = m.sch;
    mutate_nth(&mut m.doc, sch, m.excl.typename, s, &|x| matches!(x, Site::Field { f, .. } if !f.args.is_empty()) || matches!(x, Site::Dirs { ds, .. } if ds.iter().any(|d| !d.args.is_empty())), &mut |x, s| match x {
        Site::Field { f, .. } => {
            let a = f.args[s.choose(f.args.len())].clone();
            f.args.push(a);
        }
        Site::Dirs { ds, .. } => {
            if let Some(d) = ds.iter_mut().find(|d| !d.args.is_empty()) {
                let a = d.args[0].clone();
                d.args.push(a);
            }
        }
        _ => {}
    })
}

fn op_duplicate_variable(m: &mut M<'_>, s: &mut dyn Src) -> bool {
    let o = m.first_op();
    if o.vars.is_empty() {
        return false;
    }
    let v = o.vars[s.choose(o.vars.len())].clone();
    o.vars.push(v);
    true
}

fn op_duplicate_directive(m: &mut M<'_>, s: &mut dyn Src) -> bool {
    let sch = m.sch;
    mutate_nth(&mut m.doc, sch, m.excl.typename, s, &|x| matches!(x, Site::Dirs { location, .. } if ["FIELD", "INLINE_FRAGMENT", "FRAGMENT_SPREAD"].contains(location)), &mut |x, s| {
        if let Site::Dirs { ds, .. } = x {
            if ds.is_empty() {
                let name = if s.bool() { "skip" } else { "include" };
                ds.push(Directive::new(name, vec![("if", Val::Bool(name == "include"))]));
            }
            let d = ds[0].clone();
            ds.push(d);
        }
    })
}

/// two selections that answer under one response key
fn op_conflict(m: &mut M<'_>, s: &mut dyn Src) -> bool {
    let sch = m.sch;
    let cross = !m.excl.cross_condition_conflicts && s.bool();
    let not_sub_root = |x: &Site<'_>| matches!(x, Site::Sel { root_of, .. } if *root_of != Some(OpKind::Subscription));
    if !cross {
        return match s.choose(2) {
            // two fields of one parent under one key
            0 => mutate_nth(&mut m.doc, sch, m.excl.typename, s, &|x| not_sub_root(x) && matches!(x, Site::Sel { parent, .. } if !plain_leaf_fields(sch, parent).is_empty()), &mut |x, s| {
                if let Site::Sel { sel, parent, .. } = x {
                    let lf = plain_leaf_fields(sch, parent);
                    let a = lf[s.choose(lf.len())].name.clone();
                    let b = lf[s.choose(lf.len())].name.clone();
                    let b = if a == b { "__typename".to_string() } else { b };
                    sel.items.push(Selection::Field(fld(&a, Some("zk"))));
                    sel.items.push(Selection::Field(fld(&b, Some("zk"))));
                }
            }),
            // one field with different arguments
            _ => mutate_nth(&mut m.doc, sch, m.excl.typename, s, &|x| not_sub_root(x) && matches!(x, Site::Sel { sel, .. } if sel.items.iter().any(|i| matches!(i, Selection::Field(f) if !f.args.is_empty()))), &mut |x, s| {
                if let Site::Sel { sel, .. } = x {
                    let with_args: Vec<Field> = sel.items.iter().filter_map(|i| match i {
                        Selection::Field(f) if !f.args.is_empty() => Some(f.clone()),
                        _ => None,
                    }).collect();
                    let mut f = with_args[s.choose(with_args.len())].clone();
                    f.alias = Some(Name::new(f.key().to_string()));
                    f.directives.clear();
                    let k = s.choose(f.args.len());
                    if s.bool() {
                        f.args.remove(k);
                    } else {
                        f.args[k].1 = PVal::new(Val::Null);
                    }
                    sel.items.push(Selection::Field(f));
                }
            }),
        };
    }
    match s.choose(3) {
        // behind two type conditions (valid when both are objects and the shapes agree)
        0 => mutate_nth(&mut m.doc, sch, m.excl.typename, s, &|x| not_sub_root(x) && matches!(x, Site::Sel { parent, .. } if sch.possible_types(parent).len() >= 2), &mut |x, s| {
            if let Site::Sel { sel, parent, .. } = x {
                let pt = sch.possible_types(parent);
                let a = pt[s.choose(pt.len())].clone();
                let mut conds: Vec<String> = pt.iter().filter(|t| **t != a).cloned().collect();
                if sch.kind(parent) == Some(Kind::Interface) {
                    conds.push(parent.to_string());
                }
                let b = conds[s.choose(conds.len())].clone();
                let (la, lb) = (plain_leaf_fields(sch, &a), plain_leaf_fields(sch, &b));
                if la.is_empty() || lb.is_empty() {
                    return;
                }
                let fa = la[s.choose(la.len())].name.clone();
                let fb = lb[s.choose(lb.len())].name.clone();
                sel.items.push(inline(Some(&a), SelSet::new(vec![Selection::Field(fld(&fa, Some("zk")))])));
                sel.items.push(inline(Some(&b), SelSet::new(vec![Selection::Field(fld(&fb, Some("zk")))])));
            }
        }),
        // the conflict sits in the merged sub-selections of one field selected twice
        1 => mutate_nth(&mut m.doc, sch, m.excl.typename, s, &|x| not_sub_root(x) && matches!(x, Site::Sel { parent, .. } if plain_composite_fields(sch, parent).iter().any(|c| !sch.possible_types(c.ty.base()).is_empty())), &mut |x, s| {
            if let Site::Sel { sel, parent, .. } = x {
                let cf: Vec<FieldDef> = plain_composite_fields(sch, parent).into_iter().filter(|c| !sch.possible_types(c.ty.base()).is_empty()).collect();
                let c = &cf[s.choose(cf.len())];
                let t = c.ty.base();
                let sub = |s: &mut dyn Src| -> SelSet {
                    if sch.kind(t) == Some(Kind::Union) || plain_leaf_fields(sch, t).is_empty() {
                        let pt = sch.possible_types(t);
                        let o = pt[s.choose(pt.len())].clone();
                        let lf = plain_leaf_fields(sch, &o);
                        let n = if lf.is_empty() { "__typename".to_string() } else { lf[s.choose(lf.len())].name.clone() };
                        SelSet::new(vec![inline(Some(&o), SelSet::new(vec![Selection::Field(fld(&n, Some("zq")))]))])
                    } else {
                        let lf = plain_leaf_fields(sch, t);
                        SelSet::new(vec![Selection::Field(fld(&lf[s.choose(lf.len())].name, Some("zq")))])
                    }
                };
                for _ in 0..2 {
                    let mut f = fld(&c.name, Some("zk"));
                    f.sel = sub(s);
                    sel.items.push(Selection::Field(f));
                }
            }
        }),
        // one directly, one behind a fragment
        _ => mutate_nth(&mut m.doc, sch, m.excl.typename, s, &|x| not_sub_root(x) && matches!(x, Site::Sel { parent, .. } if !plain_leaf_fields(sch, parent).is_empty()), &mut |x, s| {
            if let Site::Sel { sel, parent, .. } = x {
                let lf = plain_leaf_fields(sch, parent);
                let a = lf[s.choose(lf.len())].name.clone();
                let b = lf[s.choose(lf.len())].name.clone();
                let cond = if s.bool() { Some(parent) } else { None };
                sel.items.push(Selection::Field(fld(&a, Some("zk"))));
                sel.items.push(inline(cond, SelSet::new(vec![Selection::Field(fld(&b, Some("zk")))])));
            }
        }),
    }
}

/// change the declared type of a variable that is used somewhere (construct of C09-F1)
fn op_variable_type(m: &mut M<'_>, s: &mut dyn Src) -> bool {
    if m.excl.var_position {
        return false;
    }
    let sch = m.sch;
    let o = m.first_op();
    if o.vars.is_empty() {
        return false;
    }
    let k = s.choose(o.vars.len());
    let old = o.vars[k].ty.ty.clone();
    let base = old.base().to_string();
    let others: Vec<&str> = ["Int", "Float", "String", "Boolean", "ID"].into_iter().filter(|b| *b != base).collect();
    let new = match s.choose(4) {
        // another named type in the same wrapping
        0 => {
            fn rebase(t: &Ty, b: &str) -> Ty {
                match t {
                    Ty::Named(_) => Ty::named(b),
                    Ty::List(i) => Ty::list(rebase(i, b)),
                    Ty::NonNull(i) => Ty::nn(rebase(i, b)),
                }
            }
            rebase(&old, others[s.choose(others.len())])
        }
        // drop the outer non-null
        1 if old.is_nn() => old.nullable().clone(),
        // list of it / item of it
        2 => match old.nullable() {
            Ty::List(i) => (**i).clone(),
            _ => Ty::list(old.clone()),
        },
        // nullable items where non-null items are expected
        _ => match old.nullable() {
            Ty::List(i) if i.is_nn() => Ty::list(i.nullable().clone()),
            _ => Ty::list(old.clone()),
        },
    };
    let name = o.vars[k].name.s.clone();
    o.vars[k].ty.ty = new.clone();
    // keep the request's variables coercible for the new type: regenerate default and value
    if o.vars[k].default.is_some() {
        o.vars[k].default = Some(PVal::new(gen_input_literal(sch, &new, s, 0)));
    }
    if m.vars.contains_key(&name) || (new.is_nn() && m.first_op().vars[k].default.is_none()) {
        let lit = gen_input_literal(sch, &new, s, 0);
        m.vars.insert(name, literal_to_runtime(&lit));
    }
    true
}

fn op_undefined_variable(m: &mut M<'_>, s: &mut dyn Src) -> bool {
    let sch = m.sch;
    if s.bool() {
        let o = m.first_op();
        if !o.vars.is_empty() {
            let k = s.choose(o.vars.len());
            o.vars.remove(k);
            return true;
        }
    }
    // use a variable nobody defines
    mutate_nth(&mut m.doc, sch, m.excl.typename, s, &|x| matches!(x, Site::Value { konst: false, .. }), &mut |x, _| {
        if let Site::Value { v, .. } = x {
            v.v = Val::Var("zz9".into());
        }
    })
}

fn op_unused_variable(m: &mut M<'_>, s: &mut dyn Src) -> bool {
    let provide = s.bool();
    let o = m.first_op();
    o.explicit = true;
    o.vars.push(vardef("zz9", Ty::named("Int"), None));
    if provide {
        m.vars.insert("zz9".into(), CV::Int(1));
    }
    true
}

fn op_unused_fragment(m: &mut M<'_>, s: &mut dyn Src) -> bool {
    let sch = m.sch;
    let comps: Vec<&TypeDef> = sch.types.values().filter(|t| matches!(t.kind, Kind::Object | Kind::Interface | Kind::Union)).collect();
    let t = comps[s.choose(comps.len())].name.clone();
    m.doc.defs.push(frag("Zz9", &t, typename_sel()));
    true
}

fn op_fragment_cycle(m: &mut M<'_>, s: &mut dyn Src) -> bool {
    let sch = m.sch;
    let existing: Vec<String> = m.doc.frags().map(|f| f.name.s.clone()).collect();
    if !existing.is_empty() && s.bool() {
        // an existing fragment spreads itself (directly, or through a new one)
        let name = existing[s.choose(existing.len())].clone();
        let via = s.bool();
        let mut cond = String::new();
        for d in m.doc.defs.iter_mut() {
            if let Def::Frag(f) = d {
                if f.name.s == name {
                    cond = f.cond.s.clone();
                    f.sel.items.push(spread(if via { "Zc2" } else { &name }));
                }
            }
        }
        if via {
            m.doc.defs.push(frag("Zc2", &cond, SelSet::new(vec![Selection::Field(Field::new("__typename")), spread(&name)])));
        }
        return true;
    }
    let o = m.first_op();
    if o.kind == OpKind::Subscription {
        return false;
    }
    let root = sch.root(o.kind).unwrap_or(&sch.query).to_string();
    o.sel.items.push(spread("Zc1"));
    m.doc.defs.push(frag("Zc1", &root, SelSet::new(vec![Selection::Field(Field::new("__typename")), spread("Zc1")])));
    true
}

fn op_impossible_spread(m: &mut M<'_>, s: &mut dyn Src) -> bool {
    let sch = m.sch;
    let disjoint = |parent: &str| -> Vec<String> {
        let pp = sch.possible_types(parent);
        sch.types.values().filter(|t| matches!(t.kind, Kind::Object | Kind::Interface | Kind::Union)).filter(|t| !sch.possible_types(&t.name).iter().any(|x| pp.contains(x))).map(|t| t.name.clone()).collect()
    };
    let named = s.bool();
    let mut new_frag: Option<Def> = None;
    let ok = mutate_nth(&mut m.doc, sch, m.excl.typename, s, &|x| matches!(x, Site::Sel { parent, .. } if !disjoint(parent).is_empty()), &mut |x, s| {
        if let Site::Sel { sel, parent, .. } = x {
            let d = disjoint(parent);
            let t = d[s.choose(d.len())].clone();
            if named {
                sel.items.push(spread("Zi1"));
                new_frag = Some(frag("Zi1", &t, typename_sel()));
            } else {
                sel.items.push(inline(Some(&t), typename_sel()));
            }
        }
    });
    if let Some(f) = new_frag {
        m.doc.defs.push(f);
    }
    ok
}

fn op_fragment_on_leaf(m: &mut M<'_>, s: &mut dyn Src) -> bool {
    let sch = m.sch;
    let mut non_composite: Vec<String> = vec!["Int".into(), "String".into()];
    non_composite.extend(sch.types.values().filter(|t| matches!(t.kind, Kind::Enum | Kind::Input | Kind::Scalar)).map(|t| t.name.clone()));
    let t = non_composite[s.choose(non_composite.len())].clone();
    if s.bool() {
        let existing = m.doc.frags().count();
        if existing > 0 {
            let k = s.choose(existing);
            if let Some(Def::Frag(f)) = m.doc.defs.iter_mut().filter(|d| matches!(d, Def::Frag(_))).nth(k) {
                f.cond = Name::new(t);
            }
            return true;
        }
    }
    mutate_nth(&mut m.doc, sch, m.excl.typename, s, &|x| matches!(x, Site::Sel { root_of, .. } if *root_of != Some(OpKind::Subscription)), &mut |x, _| {
        if let Site::Sel { sel, .. } = x {
            sel.items.push(inline(Some(&t), typename_sel()));
        }
    })
}

fn op_leaf_selection(m: &mut M<'_>, s: &mut dyn Src) -> bool {
    let sch = m.sch;
    mutate_nth(&mut m.doc, sch, m.excl.typename, s, &|x| matches!(x, Site::Field { def: Some(_), .. }), &mut |x, _| {
        if let Site::Field { f, def: Some(d), .. } = x {
            if sch.is_leaf(d.ty.base()) {
                f.sel = typename_sel();
            } else {
                f.sel = SelSet::empty();
            }
        }
    })
}

fn op_misplaced_directive(m: &mut M<'_>, s: &mut dyn Src) -> bool {
    let sch = m.sch;
    let no_vardefs = m.excl.variable_directives;
    mutate_nth(&mut m.doc, sch, m.excl.typename, s, &|x| matches!(x, Site::Dirs { location, .. } if !(no_vardefs && *location == "VARIABLE_DEFINITION")), &mut |x, s| {
        if let Site::Dirs { ds, location } = x {
            let executable = ["FIELD", "INLINE_FRAGMENT", "FRAGMENT_SPREAD"].contains(&location);
            let d = if executable {
                // type-system directives in an executable location
                match s.choose(3) {
                    0 => Directive::new("deprecated", vec![]),
                    1 => Directive::new("oneOf", vec![]),
                    _ => Directive::new("specifiedBy", vec![("url", Val::Str("u".into()))]),
                }
            } else {
                let name = if s.bool() { "skip" } else { "include" };
                Directive::new(name, vec![("if", Val::Bool(name == "include"))])
            };
            ds.push(d);
        }
    })
}

/// more than one root field of a subscription, or an introspection field there (construct of C09-F3)
fn op_subscription_roots(m: &mut M<'_>, s: &mut dyn Src) -> bool {
    let sch = m.sch;
    let root = match &sch.subscription {
        Some(r) => r.clone(),
        None => return false,
    };
    let excl = m.excl.subscription_roots;
    let o = m.first_op();
    if o.kind != OpKind::Subscription {
        return false;
    }
    if excl || s.chance(1, 4) {
        // the single root field is an introspection field
        o.sel.items = vec![Selection::Field(Field::new("__typename"))];
        return true;
    }
    let first = match o.sel.items.first() {
        Some(Selection::Field(f)) => f.clone(),
        _ => return false,
    };
    let mut second = first.clone();
    second.alias = Some(Name::new("zz2"));
    second.directives.clear();
    match s.choose(3) {
        0 => o.sel.items.push(Selection::Field(second)),
        1 => o.sel.items.push(inline(if s.bool() { Some(&root) } else { None }, SelSet::new(vec![Selection::Field(second)]))),
        _ => {
            o.sel.items.push(spread("Zs1"));
            m.doc.defs.push(frag("Zs1", &root, SelSet::new(vec![Selection::Field(second)])));
        }
    }
    true
}

fn op_non_input_variable(m: &mut M<'_>, s: &mut dyn Src) -> bool {
    let sch = m.sch;
    let comps: Vec<String> = sch.types.values().filter(|t| matches!(t.kind, Kind::Object | Kind::Interface | Kind::Union)).map(|t| t.name.clone()).collect();
    let t = comps[s.choose(comps.len())].clone();
    let wrap = s.choose(3);
    let ty = match wrap {
        0 => Ty::named(&t),
        1 => Ty::list(Ty::named(&t)),
        _ => Ty::nn(Ty::named(&t)),
    };
    let o = m.first_op();
    o.explicit = true;
    if !o.vars.is_empty() && s.bool() {
        let k = s.choose(o.vars.len());
        o.vars[k].ty.ty = ty;
        o.vars[k].default = None;
    } else {
        // declared and used (as the argument of a directive, so only its type is wrong)
        o.vars.push(vardef("zz9", ty, None));
        let root_sub = o.kind == OpKind::Subscription;
        if let Some(Selection::Field(f)) = o.sel.items.iter_mut().find(|i| matches!(i, Selection::Field(_))) {
            let free = ["skip", "include"].into_iter().find(|n| !f.directives.iter().any(|d| d.name.s == *n));
            match free {
                Some(n) if !root_sub => f.directives.push(Directive::new(n, vec![("if", Val::Var("zz9".into()))])),
                _ => f.args.push((Name::new("zz9"), PVal::new(Val::Var("zz9".into())))),
            }
        }
    }
    true
}

fn op_invalid_default(m: &mut M<'_>, s: &mut dyn Src) -> bool {
    let snapshot = M { sch: m.sch, doc: Doc::default(), vars: IndexMap::new(), op_name: None, extra_text: String::new(), extra_defs: 0, excl: m.excl };
    let o = m.first_op();
    if o.vars.is_empty() {
        return false;
    }
    let k = s.choose(o.vars.len());
    let ty = o.vars[k].ty.ty.clone();
    let cur = o.vars[k].default.as_ref().map(|d| d.v.clone()).unwrap_or(Val::Null);
    match wrong_literal(&snapshot, &ty, &cur, s) {
        Some(w) => {
            o.vars[k].default = Some(PVal::new(w));
            true
        }
        None => false,
    }
}

/// a JSON value that variable coercion must reject for `ty` (None: no such value in this domain)
fn wrong_runtime(sch: &Sch, ty: &Ty, no_int_range: bool, s: &mut dyn Src) -> Option<CV> {
    if ty.is_nn() && s.chance(1, 4) {
        return Some(CV::Null);
    }
    match ty.nullable() {
        Ty::NonNull(_) => None,
        Ty::List(inner) => {
            let w = wrong_runtime(sch, inner, no_int_range, s)?;
            Some(if s.bool() { CV::List(vec![w]) } else { w })
        }
        Ty::Named(n) => {
            let xs: Vec<CV> = match n.as_str() {
                "Int" if no_int_range => vec![CV::Str("1".into()), CV::Float(1.5), CV::Bool(true), CV::Obj(IndexMap::new())],
                "Int" => vec![CV::Str("1".into()), CV::Float(1.5), CV::Bool(true), CV::Int(2147483648), CV::Int(-2147483649), CV::Obj(IndexMap::new())],
                "Float" => vec![CV::Str("1.5".into()), CV::Bool(false), CV::List(vec![CV::Str("x".into())])],
                "String" => vec![CV::Int(1), CV::Float(0.5), CV::Bool(true), CV::Obj(IndexMap::new())],
                "Boolean" => vec![CV::Int(1), CV::Str("true".into()), CV::Float(0.5)],
                "ID" => vec![CV::Float(1.5), CV::Bool(true), CV::Obj(IndexMap::new())],
                _ => {
                    let td = sch.ty(n)?;
                    match td.kind {
                        Kind::Enum => vec![CV::Str("NOPE_9".into()), CV::Int(0), CV::Bool(true)],
                        Kind::Input => {
                            let mut o = match literal_to_runtime(&gen_input_literal(sch, &Ty::named(n), s, 2)) {
                                CV::Obj(o) => o,
                                _ => IndexMap::new(),
                            };
                            let req: Vec<&ArgDef> = td.input_fields.iter().filter(|f| f.ty.is_nn() && f.default.is_none()).collect();
                            let mut kinds = vec![0u8, 1];
                            if !td.one_of && !req.is_empty() {
                                kinds.push(2);
                            }
                            if td.one_of {
                                kinds.extend([3, 4]);
                            }
                            match kinds[s.choose(kinds.len())] {
                                0 => return Some(if s.bool() { CV::Int(1) } else { CV::Str("x".into()) }),
                                1 => {
                                    o.insert("zz9".into(), CV::Int(1));
                                }
                                2 => {
                                    let r = req[s.choose(req.len())].name.clone();
                                    o.shift_remove(&r);
                                }
                                3 => o.clear(),
                                _ => {
                                    let f = &td.input_fields[s.choose(td.input_fields.len())];
                                    o.clear();
                                    o.insert(f.name.clone(), CV::Null);
                                }
                            }
                            vec![CV::Obj(o)]
                        }
                        _ => return None,
                    }
                }
            };
            let i = s.choose(xs.len());
            Some(xs[i].clone())
        }
    }
}

/// variable values that do not coerce (§6.1.2)
fn op_variable_values(m: &mut M<'_>, s: &mut dyn Src) -> bool {
    let sch = m.sch;
    let vars: Vec<VarDef> = m.first_op().vars.clone();
    if vars.is_empty() {
        return false;
    }
    let vd = &vars[s.choose(vars.len())];
    if vd.ty.ty.is_nn() && vd.default.is_none() && s.chance(1, 3) {
        // a required variable is not provided
        m.vars.shift_remove(&vd.name.s);
        return true;
    }
    match wrong_runtime(sch, &vd.ty.ty, m.excl.int_range, s) {
        Some(w) => {
            m.vars.insert(vd.name.s.clone(), w);
            true
        }
        None => false,
    }
}

fn op_operations(m: &mut M<'_>, s: &mut dyn Src) -> bool {
    let first = m.first_op().clone();
    let mut second = OpDef { pos: Pos::default(), explicit: true, kind: OpKind::Query, name: None, vars: vec![], directives: vec![], sel: typename_sel() };
    match s.choose(3) {
        // the same name twice
        0 => {
            if first.name.is_none() {
                let o = m.first_op();
                o.explicit = true;
                o.name = Some(Name::new("Op"));
                m.op_name = Some("Op".into());
            }
            second.name = m.first_op().name.clone();
        }
        // an anonymous operation next to another one
        1 => {
            if first.name.is_none() {
                second.name = Some(Name::new("Other"));
            }
        }
        _ => {
            second.explicit = false;
            if first.name.is_none() {
                let o = m.first_op();
                o.explicit = true;
                o.name = Some(Name::new("Op"));
                m.op_name = Some("Op".into());
            }
        }
    }
    if s.bool() {
        m.doc.defs.push(Def::Op(second));
    } else {
        m.doc.defs.insert(0, Def::Op(second));
    }
    true
}

fn op_duplicate_fragment(m: &mut M<'_>, s: &mut dyn Src) -> bool {
    let frs: Vec<FragDef> = m.doc.frags().cloned().collect();
    if frs.is_empty() {
        return false;
    }
    let mut f = frs[s.choose(frs.len())].clone();
    if s.bool() {
        f.sel = typename_sel();
    }
    m.doc.defs.push(Def::Frag(f));
    true
}

fn op_type_system_definition(m: &mut M<'_>, s: &mut dyn Src) -> bool {
    let defs = [" type Zz9 { a: Int }", " extend type Query { zz9: Int }", " scalar Zz9", " schema { query: Query }", " directive @zz9 on FIELD", " enum Zz9 { A }"];
    m.extra_text = defs[s.choose(defs.len())].to_string();
    m.extra_defs = 1;
    true
}

// operators that are expected to keep a document valid (the reference decides)

fn v_second_operation(m: &mut M<'_>, s: &mut dyn Src) -> bool {
    let sch = m.sch;
    let first = m.first_op();
    first.explicit = true;
    if first.name.is_none() {
        first.name = Some(Name::new("Op"));
    }
    let first_name = first.name.as_ref().map(|n| n.s.clone());
    m.op_name = first_name;
    let lf = plain_leaf_fields(sch, &sch.query);
    let sel = if lf.is_empty() { typename_sel() } else { SelSet::new(vec![Selection::Field(fld(&lf[s.choose(lf.len())].name, None))]) };
    let second = OpDef { pos: Pos::default(), explicit: true, kind: OpKind::Query, name: Some(Name::new("Other")), vars: vec![], directives: vec![], sel };
    if s.bool() {
        m.doc.defs.push(Def::Op(second));
    } else {
        m.doc.defs.insert(0, Def::Op(second));
    }
    true
}

fn v_introspection(m: &mut M<'_>, s: &mut dyn Src) -> bool {
    let sch = m.sch;
    let o = m.first_op();
    if o.kind != OpKind::Query {
        return false;
    }
    let name_kind = || SelSet::new(vec![Selection::Field(Field::new("name")), Selection::Field(Field::new("kind"))]);
    let f = match s.choose(3) {
        0 => {
            let mut f = fld("__schema", Some("zs"));
            let mut q = Field::new("queryType");
            q.sel = name_kind();
            let mut t = Field::new("types");
            t.sel = name_kind();
            f.sel = SelSet::new(vec![Selection::Field(q), Selection::Field(t)]);
            f
        }
        1 => {
            let mut f = fld("__type", Some("zt"));
            let names: Vec<&String> = sch.types.keys().collect();
            f.args.push((Name::new("name"), PVal::new(Val::Str(names[s.choose(names.len())].clone()))));
            let mut fs = Field::new("fields");
            fs.sel = SelSet::new(vec![Selection::Field(Field::new("name"))]);
            f.sel = SelSet::new(vec![Selection::Field(Field::new("name")), Selection::Field(fs), inline(Some("__Type"), SelSet::new(vec![Selection::Field(Field::new("kind"))]))]);
            f
        }
        _ => {
            let mut f = fld("__schema", Some("zd"));
            let mut d = Field::new("directives");
            let mut a = Field::new("args");
            a.sel = SelSet::new(vec![Selection::Field(Field::new("name"))]);
            d.sel = SelSet::new(vec![Selection::Field(Field::new("name")), Selection::Field(Field::new("locations")), Selection::Field(a)]);
            f.sel = SelSet::new(vec![Selection::Field(d)]);
            f
        }
    };
    o.sel.items.push(Selection::Field(f));
    true
}

fn v_extra_variable_value(m: &mut M<'_>, s: &mut dyn Src) -> bool {
    m.vars.insert("zz_extra".into(), if s.bool() { CV::Int(1) } else { CV::Obj(IndexMap::new()) });
    true
}

/// a nullable variable with a non-null default where a non-null value is expected (§5.8.5 default value rule)
fn v_defaulted_nullable_variable(m: &mut M<'_>, s: &mut dyn Src) -> bool {
    let sch = m.sch;
    let o = m.first_op();
    let cands: Vec<usize> = o.vars.iter().enumerate().filter(|(_, v)| v.ty.ty.is_nn()).map(|(i, _)| i).collect();
    if cands.is_empty() {
        return false;
    }
    let k = cands[s.choose(cands.len())];
    let inner = o.vars[k].ty.ty.nullable().clone();
    let d = gen_input_literal(sch, &Ty::nn(inner.clone()), s, 0);
    o.vars[k].ty.ty = inner;
    o.vars[k].default = Some(PVal::new(d));
    true
}

/// literal items / input fields replaced by fresh variables of exactly the expected type
fn v_nested_variable(m: &mut M<'_>, s: &mut dyn Src) -> bool {
    let sch = m.sch;
    let mut new: Option<(Ty, Val)> = None;
    let ok = mutate_nth(&mut m.doc, sch, m.excl.typename, s, &|x| matches!(x, Site::Value { v, konst: false, ty } if !matches!(v.v, Val::Var(_)) && sch.kind(ty.base()).is_some()), &mut |x, _| {
        if let Site::Value { v, ty, .. } = x {
            new = Some((ty.clone(), v.v.clone()));
            v.v = Val::Var("zn1".into());
        }
    });
    if let Some((ty, lit)) = new {
        // the literal may hold variables itself: provide a fresh constant instead
        let lit = if format!("{:?}", lit).contains("Var(") { gen_input_literal(sch, &ty, s, 1) } else { lit };
        let o = m.first_op();
        o.explicit = true;
        o.vars.push(vardef("zn1", ty, None));
        m.vars.insert("zn1".into(), literal_to_runtime(&lit));
    }
    ok
}

/// `[x]` written as `x` (list input coercion)
fn v_single_value_for_list(m: &mut M<'_>, s: &mut dyn Src) -> bool {
    let sch = m.sch;
    mutate_nth(&mut m.doc, sch, m.excl.typename, s, &|x| matches!(x, Site::Value { v, ty, .. } if ty.is_list() && matches!(&v.v, Val::List(l) if l.len() == 1 && !matches!(l[0].v, Val::List(_) | Val::Null | Val::Var(_)))), &mut |x, _| {
        if let Site::Value { v, .. } = x {
            if let Val::List(l) = &v.v {
                let inner = l[0].v.clone();
                v.v = inner;
            }
        }
    })
}

const INVALIDATING: [(&str, Operator); 26] = [
    ("unknown-field", op_unknown_field),
    ("unknown-argument", op_unknown_argument),
    ("unknown-type", op_unknown_type),
    ("unknown-directive", op_unknown_directive),
    ("unknown-fragment", op_unknown_fragment),
    ("wrong-literal", op_wrong_literal),
    ("missing-required-argument", op_missing_required_argument),
    ("duplicate-argument", op_duplicate_argument),
    ("duplicate-variable", op_duplicate_variable),
    ("duplicate-directive", op_duplicate_directive),
    ("conflicting-response-keys", op_conflict),
    ("variable-type", op_variable_type),
    ("undefined-variable", op_undefined_variable),
    ("unused-variable", op_unused_variable),
    ("unused-fragment", op_unused_fragment),
    ("fragment-cycle", op_fragment_cycle),
    ("impossible-spread", op_impossible_spread),
    ("fragment-on-leaf", op_fragment_on_leaf),
    ("leaf-selection", op_leaf_selection),
    ("misplaced-directive", op_misplaced_directive),
    ("subscription-roots", op_subscription_roots),
    ("non-input-variable", op_non_input_variable),
    ("invalid-default", op_invalid_default),
    ("variable-values", op_variable_values),
    ("operations", op_operations),
    ("duplicate-fragment", op_duplicate_fragment),
];
const INVALIDATING_RARE: [(&str, Operator); 1] = [("type-system-definition", op_type_system_definition)];
const PRESERVING: [(&str, Operator); 6] = [
    ("second-operation", v_second_operation),
    ("introspection", v_introspection),
    ("extra-variable-value", v_extra_variable_value),
    ("defaulted-nullable-variable", v_defaulted_nullable_variable),
    ("nested-variable", v_nested_variable),
    ("single-value-for-list", v_single_value_for_list),
];

/// probe helper: select, at the root of a query or mutation, a field that takes an argument satisfying `want`, and
/// give it that argument (so that the construct under probe exists in the document)
fn ensure_root_field(m: &mut M<'_>, s: &mut dyn Src, want: &dyn Fn(&ArgDef) -> bool) {
    let sch = m.sch;
    let kind = m.first_op().kind;
    if kind == OpKind::Subscription {
        return;
    }
    let root = match sch.root(kind) {
        Some(r) => r.to_string(),
        None => return,
    };
    let cands: Vec<FieldDef> = sch.ty(&root).map(|t| t.fields.iter().filter(|f| f.args.iter().any(|a| want(a))).cloned().collect()).unwrap_or_default();
    if cands.is_empty() {
        return;
    }
    let fd = &cands[s.choose(cands.len())];
    let mut f = fld(&fd.name, Some("zp"));
    for a in &fd.args {
        if want(a) || (a.ty.is_nn() && a.default.is_none()) {
            f.args.push((Name::new(a.name.clone()), PVal::new(gen_input_literal(sch, &Ty::nn(a.ty.nullable().clone()), s, 0))));
        }
    }
    if sch.is_composite(fd.ty.base()) {
        f.sel = typename_sel();
    }
    m.first_op().sel.items.push(Selection::Field(f));
}

/// probe operator: break one input-object literal in the way `excl.force_input_kind` says
fn op_probe_input_object(m: &mut M<'_>, s: &mut dyn Src) -> bool {
    let sch = m.sch;
    let is_input = |ty: &Ty| matches!(ty.nullable(), Ty::Named(n) if sch.kind(n) == Some(Kind::Input));
    // make sure an input-object argument is given somewhere
    ensure_root_field(m, s, &|a| is_input(&a.ty));
    mutate_nth(&mut m.doc, sch, m.excl.typename, s, &|x| matches!(x, Site::Field { f, def: Some(d), .. } if d.args.iter().any(|a| is_input(&a.ty) && !f.args.iter().any(|(n, _)| n.s == a.name))), &mut |x, s| {
        if let Site::Field { f, def: Some(d), .. } = x {
            for a in d.args.iter().filter(|a| is_input(&a.ty)) {
                if !f.args.iter().any(|(n, _)| n.s == a.name) {
                    f.args.push((Name::new(a.name.clone()), PVal::new(gen_input_literal(sch, &Ty::nn(a.ty.clone()), s, 0))));
                }
            }
        }
    });
    let snapshot = M { sch, doc: Doc::default(), vars: IndexMap::new(), op_name: None, extra_text: String::new(), extra_defs: 0, excl: m.excl };
    let mut changed = false;
    mutate_nth(&mut m.doc, sch, m.excl.typename, s, &|x| matches!(x, Site::Value { ty, v, .. } if is_input(ty) && !matches!(v.v, Val::Var(_))), &mut |x, s| {
        if let Site::Value { v, ty, .. } = x {
            if let Some(w) = wrong_literal(&snapshot, ty, &v.v, s) {
                v.v = w;
                changed = true;
            }
        }
    });
    changed
}

/// probe operator (C09-F6): an enum value written as a string literal
fn op_probe_enum_string(m: &mut M<'_>, s: &mut dyn Src) -> bool {
    let sch = m.sch;
    let is_enum = |ty: &Ty| matches!(ty.nullable(), Ty::Named(n) if sch.kind(n) == Some(Kind::Enum));
    ensure_root_field(m, s, &|a| is_enum(&a.ty));
    mutate_nth(&mut m.doc, sch, m.excl.typename, s, &|x| matches!(x, Site::Field { f, def: Some(d), .. } if d.args.iter().any(|a| is_enum(&a.ty) && !f.args.iter().any(|(n, _)| n.s == a.name))), &mut |x, s| {
        if let Site::Field { f, def: Some(d), .. } = x {
            for a in d.args.iter().filter(|a| is_enum(&a.ty)) {
                if !f.args.iter().any(|(n, _)| n.s == a.name) {
                    f.args.push((Name::new(a.name.clone()), PVal::new(gen_input_literal(sch, &Ty::nn(a.ty.clone()), s, 0))));
                }
            }
        }
    });
    mutate_nth(&mut m.doc, sch, m.excl.typename, s, &|x| matches!(x, Site::Value { v, .. } if matches!(v.v, Val::Enum(_))), &mut |x, _| {
        if let Site::Value { v, .. } = x {
            if let Val::Enum(e) = &v.v {
                v.v = Val::Str(e.clone());
            }
        }
    })
}

/// probe operator (C09-F7): an unknown or misplaced directive on a variable definition
fn op_probe_variable_directive(m: &mut M<'_>, s: &mut dyn Src) -> bool {
    let o = m.first_op();
    if o.vars.is_empty() {
        return false;
    }
    let k = s.choose(o.vars.len());
    let d = match s.choose(3) {
        0 => Directive::new("zz9", vec![]),
        1 => Directive::new("skip", vec![("if", Val::Bool(true))]),
        _ => Directive::new("deprecated", vec![]),
    };
    o.vars[k].directives.push(d);
    true
}

/// probe operator (C09-F9): a wrong literal next to a variable that gets no value, inside one argument
fn op_probe_unsupplied_variable(m: &mut M<'_>, s: &mut dyn Src) -> bool {
    let sch = m.sch;
    let fits = |a: &ArgDef| matches!(a.ty.nullable(), Ty::List(_)) || matches!(a.ty.nullable(), Ty::Named(n) if sch.ty(n).map_or(false, |t| t.kind == Kind::Input && !t.one_of && !t.input_fields.is_empty()));
    ensure_root_field(m, s, &|a| fits(a));
    let snapshot = M { sch, doc: Doc::default(), vars: IndexMap::new(), op_name: None, extra_text: String::new(), extra_defs: 0, excl: m.excl };
    let mut new_var: Option<VarDef> = None;
    let ok = mutate_nth(&mut m.doc, sch, m.excl.typename, s, &|x| matches!(x, Site::Field { def: Some(d), .. } if d.args.iter().any(|a| fits(a))), &mut |x, s| {
        if let Site::Field { f, def: Some(d), .. } = x {
            let cands: Vec<&ArgDef> = d.args.iter().filter(|a| fits(a)).collect();
            let a = cands[s.choose(cands.len())];
            let var_of = |ty: &Ty, s: &mut dyn Src| -> VarDef { vardef("zu1", ty.clone(), if ty.is_nn() { Some(gen_input_literal(sch, ty, s, 1)) } else { None }) };
            let value = match a.ty.nullable() {
                Ty::List(item) => {
                    let w = match wrong_literal(&snapshot, item, &Val::Null, s) {
                        Some(w) => w,
                        None => return,
                    };
                    new_var = Some(var_of(item, s));
                    Val::List(vec![PVal::new(w), PVal::new(Val::Var("zu1".into()))])
                }
                Ty::Named(n) => {
                    let td = sch.ty(n).unwrap();
                    let mut fields = match gen_input_literal(sch, &Ty::named(n), s, 1) {
                        Val::Obj(f) => f,
                        _ => vec![],
                    };
                    let fd = &td.input_fields[s.choose(td.input_fields.len())];
                    fields.retain(|(k, _)| k.s != fd.name);
                    fields.push((Name::new(fd.name.clone()), PVal::new(Val::Var("zu1".into()))));
                    fields.push((Name::new("zz9"), PVal::new(Val::Int("1".into()))));
                    new_var = Some(var_of(&fd.ty, s));
                    Val::Obj(fields)
                }
                _ => return,
            };
            f.args.retain(|(n, _)| n.s != a.name);
            f.args.push((Name::new(a.name.clone()), PVal::new(value)));
        }
    });
    match new_var {
        Some(v) if ok => {
            let o = m.first_op();
            o.explicit = true;
            o.vars.push(v);
            true
        }
        _ => false,
    }
}

/// probe operator (C09-F10): a default value for a variable whose list type names an unknown type
fn op_probe_unknown_list_default(m: &mut M<'_>, s: &mut dyn Src) -> bool {
    let o = m.first_op();
    o.explicit = true;
    let ty = match s.choose(3) {
        0 => Ty::list(Ty::named("Zz9")),
        1 => Ty::nn(Ty::list(Ty::named("Zz9"))),
        _ => Ty::list(Ty::list(Ty::nn(Ty::named("Zz9")))),
    };
    let d = match s.choose(3) {
        0 => Val::List(vec![PVal::new(Val::Int("1".into()))]),
        1 => Val::Str("x".into()),
        _ => Val::List(vec![PVal::new(Val::List(vec![PVal::new(Val::Bool(true))]))]),
    };
    o.vars.push(vardef("zz9", ty, Some(d)));
    true
}

/// probe operator (C09-F11): arguments, directives, sub-selections on `__typename`
fn op_probe_typename(m: &mut M<'_>, s: &mut dyn Src) -> bool {
    let sch = m.sch;
    let mut new_var = false;
    let ok = mutate_nth(&mut m.doc, sch, false, s, &|x| matches!(x, Site::Sel { root_of, .. } if *root_of != Some(OpKind::Subscription)), &mut |x, s| {
        if let Site::Sel { sel, .. } = x {
            let mut f = fld("__typename", Some("zt"));
            match s.choose(6) {
                0 => f.args.push((Name::new("zz9"), PVal::new(Val::Int("1".into())))),
                1 => f.directives.push(Directive::new("zz9", vec![])),
                2 => f.directives.push(Directive::new("deprecated", vec![])),
                3 => {
                    f.directives.push(Directive::new("skip", vec![("if", Val::Bool(false))]));
                    f.directives.push(Directive::new("skip", vec![("if", Val::Bool(false))]));
                }
                4 => f.sel = typename_sel(),
                // valid: the only use of a variable
                _ => {
                    f.directives.push(Directive::new("skip", vec![("if", Val::Var("zt1".into()))]));
                    new_var = true;
                }
            }
            sel.items.push(Selection::Field(f));
        }
    });
    if ok && new_var {
        let o = m.first_op();
        o.explicit = true;
        o.vars.push(vardef("zt1", Ty::nn(Ty::named("Boolean")), None));
        m.vars.insert("zt1".into(), CV::Bool(false));
    }
    ok
}

/// probe operator (C09-F12): an integer beyond 32 bits where Int is expected (literal, default or variable value)
fn op_probe_int_range(m: &mut M<'_>, s: &mut dyn Src) -> bool {
    let sch = m.sch;
    let big = |s: &mut dyn Src| -> i64 { *vcore::gens::pick(s, &[2147483648i64, -2147483649, 9007199254740993, i64::MAX, i64::MIN]) };
    // variable values
    if s.chance(1, 3) {
        let ints: Vec<String> = m.first_op().vars.iter().filter(|v| v.ty.ty.nullable() == &Ty::named("Int")).map(|v| v.name.s.clone()).collect();
        if !ints.is_empty() {
            let n = ints[s.choose(ints.len())].clone();
            m.vars.insert(n, CV::Int(big(s)));
            return true;
        }
    }
    ensure_root_field(m, s, &|a| a.ty.nullable() == &Ty::named("Int"));
    mutate_nth(&mut m.doc, sch, m.excl.typename, s, &|x| matches!(x, Site::Field { f, def: Some(d), .. } if d.args.iter().any(|a| a.ty.base() == "Int" && !f.args.iter().any(|(n, _)| n.s == a.name))), &mut |x, s| {
        if let Site::Field { f, def: Some(d), .. } = x {
            for a in d.args.iter().filter(|a| a.ty.base() == "Int") {
                if !f.args.iter().any(|(n, _)| n.s == a.name) {
                    f.args.push((Name::new(a.name.clone()), PVal::new(gen_input_literal(sch, &Ty::nn(a.ty.clone()), s, 0))));
                }
            }
        }
    });
    mutate_nth(&mut m.doc, sch, m.excl.typename, s, &|x| matches!(x, Site::Value { v, ty, .. } if ty.nullable() == &Ty::named("Int") && matches!(v.v, Val::Int(_))), &mut |x, s| {
        if let Site::Value { v, .. } = x {
            v.v = Val::Int(big(s).to_string());
        }
    })
}

/// C09-F10's description, executable: validation panics ("Type `X` not defined") when a variable definition has a
/// list type whose named type is unknown and a default value in which something other than null or a list is reached
fn panics_on_unknown_list_default(sch: &Sch, doc: &Doc) -> bool {
    fn reaches_named(v: &Val) -> bool {
        match v {
            Val::Null => false,
            Val::List(l) => l.iter().any(|x| reaches_named(&x.v)),
            _ => true,
        }
    }
    doc.ops().any(|o| o.vars.iter().any(|v| v.ty.ty.is_list() && sch.kind(v.ty.ty.base()).is_none() && v.default.as_ref().map_or(false, |d| reaches_named(&d.v))))
}

// ---------------------------------------------------------------------------------------------------------------
// one case

enum Target<'a> {
    Dynamic,
    Static { schema: &'a st::S, tap: &'a Tap, sch: &'a Sch },
}

#[derive(Clone)]
struct Plan {
    excl: Excl,
    /// (finding id, its quirk alone) for every OPEN finding
    open: Vec<(String, Quirks)>,
    /// probe streams: always apply this operator
    force: Option<(&'static str, Operator)>,
    /// operation kinds the generator may choose
    ops: Vec<OpKind>,
    omitted_var_with_arg_default: bool,
}

fn all_quirks(open: &[(String, Quirks)]) -> Quirks {
    let mut q = Quirks::default();
    for (_, x) in open {
        q.no_variable_usage_check |= x.no_variable_usage_check;
        q.merge_same_condition_only |= x.merge_same_condition_only;
        q.no_subscription_root_count |= x.no_subscription_root_count;
        q.last_duplicate_input_field_wins |= x.last_duplicate_input_field_wins;
        q.non_object_for_input_object_accepted |= x.non_object_for_input_object_accepted;
        q.string_literal_for_enum_accepted |= x.string_literal_for_enum_accepted;
        q.variable_directives_unchecked |= x.variable_directives_unchecked;
        q.unsupplied_variable_disables_argument_check |= x.unsupplied_variable_disables_argument_check;
        q.typename_fields_unvisited |= x.typename_fields_unvisited;
        q.int_accepts_64_bits |= x.int_accepts_64_bits;
    }
    q
}

fn selected_kind(doc: &Doc, op_name: Option<&str>) -> Option<OpKind> {
    let ops: Vec<&OpDef> = doc.ops().collect();
    match op_name {
        None if ops.len() == 1 => Some(ops[0].kind),
        None => None,
        Some(n) => ops.iter().find(|o| o.name.as_ref().map(|x| x.s.as_str()) == Some(n)).map(|o| o.kind),
    }
}

fn errors_text(rs: &[Response]) -> String {
    rs.iter().flat_map(|r| r.errors.iter()).map(|e| format!("{} @{:?}", e.message, e.locations.iter().map(|l| (l.line, l.column)).collect::<Vec<_>>())).collect::<Vec<_>>().join(" | ")
}

fn run_case(s: &mut dyn Src, target: &Target<'_>, plan: &Plan) -> Case {
    // schema and data
    let gen_sch_world;
    let (sch, world): (&Sch, Option<&World>) = match target {
        Target::Static { sch, .. } => (sch, None),
        Target::Dynamic => {
            let sch = gen_sch(s, &SchCfg { subscription: true, ..SchCfg::default() });
            let mut world = gen_world(&sch, s, &WorldCfg { null_composite_items: false, ..WorldCfg::default() });
            // dynbuild reads a list value of a subscription field as the sequence of events: one event holding the list
            if let (Some(root), Some(rt)) = (world.subscription_root, sch.subscription.as_ref()) {
                for fd in &sch.types[rt].fields {
                    if let Some(v) = world.nodes[root].fields.get_mut(&fd.name) {
                        if fd.ty.is_list() && matches!(v, WVal::List(_)) {
                            *v = WVal::List(vec![v.clone()]);
                        }
                    }
                }
            }
            gen_sch_world = (sch, world);
            (&gen_sch_world.0, Some(&gen_sch_world.1))
        }
    };
    // a valid request
    let mut tcfg = TypedCfg::default();
    tcfg.omitted_var_with_arg_default = plan.omitted_var_with_arg_default;
    tcfg.ops = plan.ops.clone();
    let mut td = gen_typed_doc(sch, s, &tcfg);
    let mut stripped = false;
    if let Some(Def::Op(o)) = td.doc.defs.first_mut() {
        if o.kind == OpKind::Subscription {
            // the October 2021 text evaluates @skip/@include at a subscription's root with no variables: not generated
            for it in o.sel.items.iter_mut() {
                if let Selection::Field(f) = it {
                    stripped |= !f.directives.is_empty();
                    f.directives.clear();
                }
            }
        }
    }
    if stripped {
        let text = td.doc.defs.iter().map(|d| match d {
            Def::Op(o) => format!("{:?}", o.sel),
            Def::Frag(f) => format!("{:?}", f.sel),
        }).collect::<Vec<_>>().join(" ");
        if let Some(Def::Op(o)) = td.doc.defs.first_mut() {
            o.vars.retain(|v| text.contains(&format!("Var(\"{}\")", v.name.s)));
            let keep: Vec<String> = o.vars.iter().map(|v| v.name.s.clone()).collect();
            td.vars.retain(|k, _| keep.contains(k));
        }
    }
    let had_vars = !td.vars.is_empty() || td.doc.ops().any(|o| !o.vars.is_empty());
    let had_frags = td.stats.named_fragments + td.stats.interface_cond + td.stats.object_cond + td.stats.union_cond_in_object > 0;
    let mut m = M { sch, doc: td.doc, vars: td.vars, op_name: td.op_name, extra_text: String::new(), extra_defs: 0, excl: plan.excl };
    // mutation
    let mut labels: Vec<&'static str> = vec![];
    let apply_from = |m: &mut M<'_>, s: &mut dyn Src, table: &[(&'static str, Operator)], start: usize, labels: &mut Vec<&'static str>| {
        for k in 0..table.len() {
            let (name, f) = table[(start + k) % table.len()];
            if f(m, s) {
                labels.push(name);
                return;
            }
        }
    };
    match plan.force {
        Some((name, f)) => {
            if !f(&mut m, s) {
                return Case::discard("probe operator not applicable");
            }
            labels.push(name);
        }
        None => match s.weighted(&[5, 8, 2]) {
            0 => {}
            1 => {
                let n = if s.chance(1, 8) { 2 } else { 1 };
                for _ in 0..n {
                    let r = s.choose(2 * INVALIDATING.len() + INVALIDATING_RARE.len());
                    if r < 2 * INVALIDATING.len() {
                        apply_from(&mut m, s, &INVALIDATING, r / 2, &mut labels);
                    } else {
                        apply_from(&mut m, s, &INVALIDATING_RARE, r - 2 * INVALIDATING.len(), &mut labels);
                    }
                }
            }
            _ => {
                let r = s.choose(PRESERVING.len());
                apply_from(&mut m, s, &PRESERVING, r, &mut labels);
            }
        },
    }
    judge(target, sch, world, &mut m, &labels, plan, had_vars && had_frags)
}

/// Print the request, ask the reference validator, run the request, compare.
fn judge(target: &Target<'_>, sch: &Sch, world: Option<&World>, m: &mut M<'_>, labels: &[&'static str], plan: &Plan, vars_and_frags: bool) -> Case {
    // the query shorthand cannot carry a name, variables or directives
    for d in m.doc.defs.iter_mut() {
        if let Def::Op(o) = d {
            if o.name.is_some() || !o.vars.is_empty() || !o.directives.is_empty() {
                o.explicit = true;
            }
        }
    }
    let mut text = print_plain(&mut m.doc);
    text.push_str(&m.extra_text);
    let vars_json = serde_json::Value::Object(m.vars.iter().map(|(k, v)| (k.clone(), v.to_json())).collect());
    // the specification's verdict
    let inp = Input { sch, doc: &m.doc, op_name: m.op_name.as_deref(), vars: &m.vars, non_executable_defs: m.extra_defs, custom_scalar_ok: &custom_scalar_ok };
    let spec: Report = validate_full(&inp, Quirks::default());
    if !spec.dont_care.is_empty() {
        // one reason per kind: variable names are left out
        let reason: String = spec.dont_care[0].split(' ').filter(|w| !w.starts_with('$')).collect::<Vec<_>>().join(" ");
        return Case::discard(format!("don't care: {}", reason));
    }
    let rules = spec.rules();
    let rendered = format!(
        "target: {}\nquery: {}\nvariables: {}\noperationName: {:?}\noperators: {:?}\nreference: {}\nschema: {}",
        if world.is_some() { "dynamic" } else { "static" },
        text,
        vars_json,
        m.op_name,
        labels,
        if rules.is_empty() { "valid".to_string() } else { spec.violations.iter().map(|v| format!("[{}] {}", v.rule, v.msg)).collect::<Vec<_>>().join("; ") },
        if world.is_some() { show_sch(sch) } else { "(static schema of c09.rs)".to_string() },
    );
    // the implementation
    let stream = selected_kind(&m.doc, m.op_name.as_deref()) == Some(OpKind::Subscription);
    let req = request(&text, &m.vars, m.op_name.as_deref());
    let ran = vcore::drive::catch(|| match target {
        Target::Static { schema, tap, .. } => Ok(run_static(schema, tap, req, stream)),
        Target::Dynamic => run_dynamic(sch, world.unwrap(), req, stream),
    });
    let out = match ran {
        Ok(Ok(o)) => o,
        Ok(Err(e)) => return Case::fail(rendered, format!("HARNESS: {}", e)),
        Err(panic) => {
            let known = plan.open.iter().any(|(id, _)| id == "C09-F10") && panics_on_unknown_list_default(sch, &m.doc) && panic.contains("not defined");
            let c = if known { Case::known(rendered, vec!["C09-F10".into()]) } else { Case::fail(rendered, format!("panic while handling the request: {}", panic)) };
            return c.class("panic");
        }
    };
    let stage = match &out.validation {
        None => "validation not reached",
        Some(Ok(())) => "validation passed",
        Some(Err(_)) => "validation failed",
    };
    let n_errors: usize = out.responses.iter().map(|r| r.errors.len()).sum();
    // the dynamic builder's subscription resolvers only serve leaf events: execution errors are the harness's there
    let execution_observable = !(stream && world.is_some());
    let mut case = if rules.is_empty() {
        if out.validation.as_ref().map_or(true, |v| v.is_err()) || (n_errors > 0 && execution_observable) {
            // do the open findings predict exactly this: validation rejects?
            let owned: Vec<(String, Quirks)> = plan.open.iter().filter(|(_, q)| !validate_full(&inp, *q).is_valid()).cloned().collect();
            if !owned.is_empty() && matches!(out.validation, Some(Err(_))) {
                Case::known(rendered, owned.iter().map(|(id, _)| id.clone()).collect())
            } else {
                Case::fail(rendered, format!("a valid request was not executed cleanly ({}): {}", stage, errors_text(&out.responses)))
            }
        } else {
            Case::pass(rendered).class("valid").class_if(!labels.is_empty(), "valid-after-operator").class_if(vars_and_frags && labels.is_empty(), "valid-with-variables-and-fragments").nontrivial(vars_and_frags)
        }
    } else {
        let unlocated: Vec<String> = out.responses.iter().flat_map(|r| r.errors.iter()).filter(|e| e.locations.is_empty()).map(|e| e.message.clone()).collect();
        let verdict: Result<(), String> = if out.responses.is_empty() {
            Err("no response".into())
        } else if n_errors == 0 {
            Err(format!("an invalid request was accepted ({})", stage))
        } else if out.resolver_calls > 0 {
            Err(format!("{} resolver calls although the request is invalid ({}): {}", out.resolver_calls, stage, errors_text(&out.responses)))
        } else if !unlocated.is_empty() {
            Err(format!("rejected with an error without location ({}): {:?}", stage, unlocated))
        } else {
            Ok(())
        };
        match verdict {
            Ok(()) => Case::pass(rendered).nontrivial(rules.len() == 1),
            Err(why) => {
                // is this exactly what the open findings predict: validation passes?
                let relevant: Vec<&(String, Quirks)> = plan.open.iter().filter(|(_, q)| validate_full(&inp, *q).violations.len() < spec.violations.len()).collect();
                let owned: Vec<(String, Quirks)> = relevant.iter().map(|x| (*x).clone()).collect();
                let predicted_valid = !owned.is_empty() && validate_full(&inp, all_quirks(&owned)).is_valid();
                if predicted_valid && matches!(out.validation, Some(Ok(()))) {
                    Case::known(rendered, owned.iter().map(|(id, _)| id.clone()).collect())
                } else {
                    Case::fail(rendered, why)
                }
            }
        }
    };
    for r in &rules {
        case = case.class(format!("rule:{}", r));
    }
    case.class_if(rules.len() == 1, "invalid-by-one-rule").class_if(rules.len() > 1, "invalid-by-several-rules").class(if world.is_some() { "dynamic-schema" } else { "static-schema" })
}

// ---------------------------------------------------------------------------------------------------------------
// the static target and its mirror

fn type_text(t: &serde_json::Value) -> String {
    match t["kind"].as_str() {
        Some("NON_NULL") => format!("{}!", type_text(&t["ofType"])),
        Some("LIST") => format!("[{}]", type_text(&t["ofType"])),
        _ => t["name"].as_str().unwrap_or("?").to_string(),
    }
}

/// the mirror must agree with the schema's own introspection; the served directives must be the specification's
fn check_mirror(schema: &st::S, sch: &Sch) -> Result<(), String> {
    let q = "{ __schema { queryType{name} mutationType{name} subscriptionType{name} \
             types { name kind fields(includeDeprecated:true){ name type{kind name ofType{kind name ofType{kind name ofType{kind name ofType{kind name}}}}} args{ name defaultValue type{kind name ofType{kind name ofType{kind name ofType{kind name ofType{kind name}}}}} } } \
                     inputFields{ name defaultValue type{kind name ofType{kind name ofType{kind name ofType{kind name}}}} } enumValues{name} possibleTypes{name} interfaces{name} } \
             directives { name locations isRepeatable args{ name type{kind name ofType{kind name}} } } } }";
    let r = vcore::det::block_on(schema.execute(q));
    let j = r.data.clone().into_json().map_err(|e| e.to_string())?;
    let sc = &j["__schema"];
    if !r.errors.is_empty() || !sc.is_object() {
        // the introspection request is itself a request of the property's domain
        let doc = vgql::refparse::parse_executable(q, &vgql::refparse::Opts::default()).map_err(|e| e.msg)?;
        let no_vars = IndexMap::new();
        let spec = validate_full(&Input { sch, doc: &doc, op_name: None, vars: &no_vars, non_executable_defs: 0, custom_scalar_ok: &custom_scalar_ok }, Quirks::default());
        return Err(format!("{}the introspection request ({}) was answered with errors {:?} and data {}", if spec.is_valid() { "VALID-REJECTED: " } else { "" }, q, r.errors.iter().map(|e| e.message.clone()).collect::<Vec<_>>(), j));
    }
    if sc["queryType"]["name"].as_str() != Some(&sch.query) || sc["mutationType"]["name"].as_str() != sch.mutation.as_deref() || sc["subscriptionType"]["name"].as_str() != sch.subscription.as_deref() {
        return Err("root types differ".into());
    }
    let mut seen = 0;
    for t in sc["types"].as_array().ok_or("types")? {
        let name = t["name"].as_str().unwrap_or("");
        if name.starts_with("__") || BUILTIN_SCALARS.contains(&name) {
            continue;
        }
        seen += 1;
        let td = sch.ty(name).ok_or(format!("type {} missing in the mirror", name))?;
        let kind = match td.kind {
            Kind::Scalar => "SCALAR",
            Kind::Object => "OBJECT",
            Kind::Interface => "INTERFACE",
            Kind::Union => "UNION",
            Kind::Enum => "ENUM",
            Kind::Input => "INPUT_OBJECT",
        };
        if t["kind"].as_str() != Some(kind) {
            return Err(format!("kind of {} differs", name));
        }
        let fields: Vec<String> = t["fields"].as_array().map(|fs| fs.iter().map(|f| format!("{}({}):{}", f["name"].as_str().unwrap_or(""), f["args"].as_array().map(|a| a.iter().map(|x| format!("{}:{}={}", x["name"].as_str().unwrap_or(""), type_text(&x["type"]), x["defaultValue"].as_str().unwrap_or("-"))).collect::<Vec<_>>().join(",")).unwrap_or_default(), type_text(&f["type"]))).collect()).unwrap_or_default();
        let mine: Vec<String> = td.fields.iter().map(|f| format!("{}({}):{}", f.name, f.args.iter().map(|a| format!("{}:{}={}", a.name, a.ty.show(), a.default.as_ref().map(vgql::print::print_value_plain).unwrap_or("-".into()))).collect::<Vec<_>>().join(","), f.ty.show())).collect();
        if fields != mine {
            return Err(format!("fields of {} differ: {:?} vs mirror {:?}", name, fields, mine));
        }
        let inputs: Vec<String> = t["inputFields"].as_array().map(|fs| fs.iter().map(|x| format!("{}:{}={}", x["name"].as_str().unwrap_or(""), type_text(&x["type"]), x["defaultValue"].as_str().unwrap_or("-"))).collect()).unwrap_or_default();
        let mine: Vec<String> = td.input_fields.iter().map(|a| format!("{}:{}={}", a.name, a.ty.show(), a.default.as_ref().map(vgql::print::print_value_plain).unwrap_or("-".into()))).collect();
        if inputs != mine {
            return Err(format!("input fields of {} differ: {:?} vs mirror {:?}", name, inputs, mine));
        }
        let names = |k: &str| -> Vec<String> {
            let mut v: Vec<String> = t[k].as_array().map(|a| a.iter().map(|x| x["name"].as_str().unwrap_or("").to_string()).collect()).unwrap_or_default();
            v.sort();
            v
        };
        let mut vals: Vec<String> = td.values.iter().map(|v| v.name.clone()).collect();
        vals.sort();
        if names("enumValues") != vals {
            return Err(format!("enum values of {} differ", name));
        }
        if matches!(td.kind, Kind::Union | Kind::Interface) {
            let mut pt = sch.possible_types(name);
            pt.sort();
            if names("possibleTypes") != pt {
                return Err(format!("possible types of {} differ", name));
            }
        }
    }
    if seen != sch.types.len() {
        return Err(format!("the mirror has {} types, introspection {}", sch.types.len(), seen));
    }
    if !sch.ty("Key").map_or(false, |t| t.one_of) {
        return Err("Key is not OneOf in the mirror".into());
    }
    // directives
    let mut served: Vec<String> = sc["directives"].as_array().ok_or("directives")?.iter().map(|d| {
        let mut locs: Vec<String> = d["locations"].as_array().map(|a| a.iter().map(|x| x.as_str().unwrap_or("").to_string()).collect()).unwrap_or_default();
        locs.sort();
        format!("@{}({}) on {} repeatable={}", d["name"].as_str().unwrap_or(""), d["args"].as_array().map(|a| a.iter().map(|x| format!("{}:{}", x["name"].as_str().unwrap_or(""), type_text(&x["type"]))).collect::<Vec<_>>().join(",")).unwrap_or_default(), locs.join("|"), d["isRepeatable"])
    }).collect();
    served.sort();
    let mut spec: Vec<String> = builtin_directives().iter().map(|d| {
        let mut locs: Vec<String> = d.locations.iter().map(|l| l.to_string()).collect();
        locs.sort();
        format!("@{}({}) on {} repeatable={}", d.name, d.args.iter().map(|a| format!("{}:{}", a.name, a.ty.show())).collect::<Vec<_>>().join(","), locs.join("|"), d.repeatable)
    }).collect();
    spec.sort();
    if served != spec {
        return Err(format!("served directives {:?} differ from the specification's {:?}", served, spec));
    }
    Ok(())
}

// ---------------------------------------------------------------------------------------------------------------

/// The search plan for the current list of open findings: every open finding's construct is excluded from the main
/// search by construction and its quirk is recorded for the probe streams.
fn make_plan(open_finding: &dyn Fn(&str) -> bool) -> Plan {
    let findings: [(&str, Quirks); 11] = [
        ("C09-F10", Quirks::default()),
        ("C09-F11", Quirks { typename_fields_unvisited: true, ..Quirks::default() }),
        ("C09-F12", Quirks { int_accepts_64_bits: true, ..Quirks::default() }),
        ("C09-F1", Quirks { no_variable_usage_check: true, ..Quirks::default() }),
        ("C09-F2", Quirks { merge_same_condition_only: true, ..Quirks::default() }),
        ("C09-F3", Quirks { no_subscription_root_count: true, ..Quirks::default() }),
        ("C09-F4", Quirks { last_duplicate_input_field_wins: true, ..Quirks::default() }),
        ("C09-F5", Quirks { non_object_for_input_object_accepted: true, ..Quirks::default() }),
        ("C09-F6", Quirks { string_literal_for_enum_accepted: true, ..Quirks::default() }),
        ("C09-F7", Quirks { variable_directives_unchecked: true, ..Quirks::default() }),
        ("C09-F9", Quirks { unsupplied_variable_disables_argument_check: true, ..Quirks::default() }),
    ];
    let open: Vec<(String, Quirks)> = findings.iter().filter(|(id, _)| open_finding(id)).map(|(id, q)| (id.to_string(), *q)).collect();
    let is_open = |id: &str| open.iter().any(|(i, _)| i == id);
    let excl = Excl {
        var_position: is_open("C09-F1"),
        cross_condition_conflicts: is_open("C09-F2"),
        subscription_roots: is_open("C09-F3"),
        duplicate_input_fields: is_open("C09-F4"),
        non_object_for_input: is_open("C09-F5"),
        string_for_enum: is_open("C09-F6"),
        variable_directives: is_open("C09-F7"),
        unknown_list_default: is_open("C09-F10"),
        typename: is_open("C09-F11"),
        int_range: is_open("C09-F12"),
        force_input_kind: None,
    };
    Plan { excl, open: open.clone(), force: None, ops: vec![OpKind::Query, OpKind::Query, OpKind::Mutation, OpKind::Subscription], omitted_var_with_arg_default: !open_finding("C06-F1") }
}

/// Entry point of the libFuzzer target `validate_diff` (thorough tier): the fuzzer's bytes are the choice stream of
/// `run_case`; byte 0 selects the flavour (random dynamic schema / the static schema of this module). Open findings
/// are excluded by construction exactly as in the proptest streams. Returns the failure text, if any.
#[allow(dead_code)]
pub fn fuzz_one(data: &[u8]) -> Option<String> {
    use std::sync::OnceLock;
    struct Fz {
        schema: st::S,
        tap: Tap,
        sch: Sch,
        plan: Plan,
    }
    static FZ: OnceLock<Fz> = OnceLock::new();
    if data.len() < 8 {
        return None;
    }
    let fz = FZ.get_or_init(|| {
        let tap = Tap::default();
        let schema: st::S = async_graphql::Schema::build(st::Query, st::Mutation, st::Subscription).extension(tap.clone()).finish();
        let sch = from_sdl_text(&schema.sdl()).expect("static schema SDL readable");
        let c = Ctx::new("C09", vcore::Tier::Thorough, "fuzz");
        let plan = make_plan(&|id| c.open(id));
        Fz { schema, tap, sch, plan }
    });
    let mut src = vcore::ByteSrc::new(&data[1..]);
    let case = if data[0] % 2 == 0 { run_case(&mut src, &Target::Dynamic, &fz.plan) } else { run_case(&mut src, &Target::Static { schema: &fz.schema, tap: &fz.tap, sch: &fz.sch }, &fz.plan) };
    match &case.verdict {
        vcore::Verdict::Fail(why) => Some(format!("{}\n{}", why, case.text)),
        _ => None,
    }
}

pub fn run(ctx: &mut Ctx) {
    ctx.rule = "requests = (schema, document, variables, operation name): documents from the typed generator (valid by construction) over random dynamic schemas and the \
                derive-built static schema of this module, unchanged, or changed by one (1 in 8: two) of 27 rule-targeted mutation operators, or by one of 6 operators expected to keep \
                them valid; the reference validator (GraphQL October 2021 section 5 + OneOf RFC + CoerceVariableValues) decides validity and names the rules. Non-trivial = invalid by \
                exactly one rule, or valid with at least one variable and one fragment; distinct by rendered request"
        .into();
    ctx.assume("the operation to execute can be determined (operationName names an operation of the document, or the document has one operation): GetOperation failures are request errors outside section 5");
    ctx.assume("custom scalar literals and values: only what the harness's scalars define (integers 0..=9 valid, other integers/kinds invalid per the scalar's own coercion)");
    ctx.assume("@skip/@include on the root selections of a subscription are not generated (the October 2021 text evaluates them with an empty variable map; later drafts forbid them)");
    ctx.assume("integral floats for Int variables and similar cases that vgql::coerce marks implementation-defined are discarded");
    ctx.assume("Upload-typed variables are outside the domain (documented restriction of async-graphql)");
    ctx.assume("variables inside variable default values are a syntax matter (C13), not generated");
    ctx.assume("valid requests run against fault-free data, so any error in a response to a valid request is a failure; exception: subscriptions on dynamic schemas, where only the validation verdict is observed (the harness's dynamic subscription resolvers serve leaf events only)");
    ctx.assume("operations of a kind the schema has no root type for are discarded (not a rule of October 2021 section 5)");
    ctx.assume("a nullable variable as the field of a OneOf input object (static rule of the RFC only) and requests in which a variable is null at run time in a non-null position (a field error of execution by the note in 5.8.5) are discarded");

    // static target
    let tap = Tap::default();
    let schema: st::S = async_graphql::Schema::build(st::Query, st::Mutation, st::Subscription).extension(tap.clone()).finish();
    let static_sch = match from_sdl_text(&schema.sdl()) {
        Ok(s) => s,
        Err(e) => {
            ctx.inconclusive(format!("HARNESS: the static schema's SDL is not readable: {}", e));
            return;
        }
    };
    if let Err(e) = check_mirror(&schema, &static_sch) {
        match e.strip_prefix("VALID-REJECTED: ") {
            // valid by the reference validator, not executed: a violation of the property, not a harness problem
            Some(why) => {
                ctx.check_case("mirror", Case::fail(why, "a valid request was not executed cleanly"), serde_json::Value::Null);
            }
            None => ctx.inconclusive(format!("HARNESS: static schema mirror: {}", e)),
        }
        return;
    }

    // verification of a proposed repair: VERIF_C09_ASSUME_FIXED=C09-F1,C09-F3 treats these findings as not open
    let assume_fixed: Vec<String> = std::env::var("VERIF_C09_ASSUME_FIXED").map(|v| v.split(',').map(|x| x.trim().to_string()).collect()).unwrap_or_default();
    if !assume_fixed.is_empty() {
        ctx.note("assume_fixed", serde_json::json!(assume_fixed));
    }
    let plan = make_plan(&|id| ctx.open(id) && !assume_fixed.iter().any(|a| a == id));
    let open = plan.open.clone();
    let excl = plan.excl;
    let is_open = |id: &str| open.iter().any(|(i, _)| i == id);
    for (id, _) in &open {
        ctx.excluded(id);
    }

    let st_target = Target::Static { schema: &schema, tap: &tap, sch: &static_sch };

    // minimised witnesses of the findings (static schema): known while the finding is open, must pass once repaired
    let witnesses: [(&'static str, &str, &str); 14] = [
        ("C09-F1", "query($v: Int) { sum(xs: $v) }", r#"{"v": 1}"#),
        ("C09-F2", "{ things { ... on Dog { k: name } ... on Robot { k: model } } }", "{}"),
        ("C09-F2", "{ k: dog { x: name } k: dog { x: barks } }", "{}"),
        ("C09-F3", "subscription { ticks events { __typename } }", "{}"),
        ("C09-F4", "{ echo(p: {x: 1, x: 2}) }", "{}"),
        ("C09-F5", "{ dog { name } echo(p: 1) }", "{}"),
        ("C09-F5", "query($f: Filter) { dog { name } things(filter: $f) { __typename } }", r#"{"f": "x"}"#),
        ("C09-F6", r#"{ echo(p: {x: 1}, c: "RED") }"#, "{}"),
        ("C09-F7", "query($a: Int! @zz9) { sum(xs: [$a]) }", r#"{"a": 1}"#),
        ("C09-F9", "query($a: [String!]) { dog { name } echo(p: {x: 1, label: 3, tags: $a}) }", "{}"),
        ("C09-F10", "query($a: [Zz9] = [1]) { dog { name } }", "{}"),
        ("C09-F11", "{ __typename(zz9: 1) dog { name } }", "{}"),
        ("C09-F11", "query($v: Boolean!) { __typename @skip(if: $v) }", r#"{"v": true}"#),
        ("C09-F12", "{ dog { name legs(min: -2147483649) } }", "{}"),
    ];
    let t0 = std::time::Instant::now();
    for (id, q, vars) in witnesses {
        let doc = vgql::refparse::parse_executable(q, &vgql::refparse::Opts::default()).expect("witness parses");
        let vars: IndexMap<String, CV> = serde_json::from_str::<serde_json::Value>(vars).expect("witness variables").as_object().map(|o| o.iter().map(|(k, v)| (k.clone(), CV::from_json(v))).collect()).unwrap_or_default();
        let mut m = M { sch: &static_sch, doc, vars, op_name: None, extra_text: String::new(), extra_defs: 0, excl };
        let c = judge(&st_target, &static_sch, None, &mut m, &[id], &plan, false);
        ctx.check_case("witnesses", c, serde_json::json!({ "finding": id }));
    }
    ctx.enumerated("witnesses", witnesses.len() as u64, true, t0);

    let n = ctx.tier.pick(12_000, 400_000);
    ctx.stream("dynamic", n, 700, |s| run_case(s, &Target::Dynamic, &plan));
    ctx.stream("static", n * 3 / 4, 500, |s| run_case(s, &st_target, &plan));

    // probe streams: the constructs of the open findings, deviations must be exactly the predicted ones
    let probes: [(&str, &str, Operator, Option<u8>, bool); 11] = [
        ("C09-F10", "default-for-unknown-list-type", op_probe_unknown_list_default, None, false),
        ("C09-F11", "typename-decorations", op_probe_typename, None, false),
        ("C09-F12", "int-beyond-32-bits", op_probe_int_range, None, false),
        ("C09-F1", "variable-type", op_variable_type, None, false),
        ("C09-F2", "conflicting-response-keys", op_conflict, None, false),
        ("C09-F3", "subscription-roots", op_subscription_roots, None, true),
        ("C09-F4", "duplicate-input-field", op_probe_input_object, Some(3), false),
        ("C09-F5", "non-object-for-input-object", op_probe_input_object, Some(0), false),
        ("C09-F6", "string-for-enum", op_probe_enum_string, None, false),
        ("C09-F7", "variable-definition-directive", op_probe_variable_directive, None, false),
        ("C09-F9", "wrong-literal-next-to-unsupplied-variable", op_probe_unsupplied_variable, None, false),
    ];
    for (id, label, f, kind, subs) in probes {
        if !is_open(id) {
            continue;
        }
        let mut p = plan.clone();
        p.force = Some((label, f));
        p.ops = if subs { vec![OpKind::Subscription] } else { vec![OpKind::Query] };
        p.excl.force_input_kind = kind;
        match id {
            "C09-F1" => p.excl.var_position = false,
            "C09-F2" => p.excl.cross_condition_conflicts = false,
            "C09-F3" => p.excl.subscription_roots = false,
            "C09-F4" => p.excl.duplicate_input_fields = false,
            "C09-F5" => p.excl.non_object_for_input = false,
            "C09-F6" => p.excl.string_for_enum = false,
            "C09-F7" => p.excl.variable_directives = false,
            "C09-F10" => p.excl.unknown_list_default = false,
            "C09-F11" => p.excl.typename = false,
            "C09-F12" => p.excl.int_range = false,
            _ => {}
        }
        let name = format!("probe-{}", id);
        ctx.stream(&name, n / 10, 700, |s| if s.chance(1, 3) { run_case(s, &Target::Dynamic, &p) } else { run_case(s, &st_target, &p) });
    }

    for r in RULES {
        ctx.floor(&format!("rule:{}", r), 3);
    }
    ctx.floor("valid", 1000);
    ctx.floor("valid-with-variables-and-fragments", 200);
    ctx.floor("valid-after-operator", 100);
    ctx.floor("invalid-by-one-rule", 1000);
}
