//! C27 — each subscription response holds exactly its own event's data and errors; a streamed query or mutation
//! yields exactly one response.
use crate::execcmp::*;
use async_graphql::*;
use futures_util::stream::{self, Stream, StreamExt};
use indexmap::IndexMap;
use std::sync::{Arc, Mutex};
use vcore::det::Sim;
use vcore::{Case, Ctx, Src};
use vgql::ast::{self as qa, Def, Doc, OpDef, OpKind, Pos, SelSet, Selection};
use vgql::print::print_plain;
use vgql::refexec::{execute, show_path, Quirks, Seg};
use vgql::sch::Sch;
use vgql::world::{Fault, Node, WVal, World};
use vschemas::rt::Rt;

struct Tick(usize);

async fn tres(ctx: &Context<'_>, node: usize, field: &str) -> Result<WVal> {
    let rt = ctx.data::<Rt>()?.clone();
    let path = ctx.path_node.map(|p| p.to_string()).unwrap_or_default();
    rt.start(&path, node, "Tick", field, String::new());
    rt.gate(format!("#{}:{}", node, path)).await;
    rt.finish(&path, node, field);
    if rt.world.fault(node, field).is_some() {
        return Err(Error::new(format!("fault node#{} {}", node, field)));
    }
    Ok(rt.world.value(node, field).cloned().unwrap_or(WVal::Null))
}
fn as_int(v: WVal) -> Option<i32> {
    match v {
        WVal::Int(i) => Some(i as i32),
        _ => None,
    }
}

#[Object]
impl Tick {
    async fn id(&self, ctx: &Context<'_>) -> Result<i32> {
        Ok(as_int(tres(ctx, self.0, "id").await?).unwrap_or(-1))
    }
    async fn val(&self, ctx: &Context<'_>) -> Result<Option<i32>> {
        Ok(as_int(tres(ctx, self.0, "val").await?))
    }
    async fn note(&self, ctx: &Context<'_>) -> Result<Option<String>> {
        Ok(match tres(ctx, self.0, "note").await? {
            WVal::Str(s) => Some(s),
            _ => None,
        })
    }
    async fn strict(&self, ctx: &Context<'_>) -> Result<i32> {
        Ok(as_int(tres(ctx, self.0, "strict").await?).unwrap_or(0))
    }
    async fn next(&self, ctx: &Context<'_>) -> Result<Option<Tick>> {
        Ok(match tres(ctx, self.0, "next").await? {
            WVal::Ref(n) => Some(Tick(n)),
            _ => None,
        })
    }
}

struct Query;
#[Object]
impl Query {
    async fn q(&self) -> i32 {
        1
    }
}
struct Sub;
fn events(ctx: &Context<'_>, field: &str) -> Vec<Tick> {
    let rt = ctx.data_unchecked::<Rt>();
    let root = rt.world.subscription_root.unwrap_or(0);
    match rt.world.value(root, field) {
        Some(WVal::List(l)) => l.iter().filter_map(|x| if let WVal::Ref(n) = x { Some(Tick(*n)) } else { None }).collect(),
        _ => vec![],
    }
}
#[Subscription]
impl Sub {
    async fn ticks(&self, ctx: &Context<'_>) -> impl Stream<Item = Tick> {
        stream::iter(events(ctx, "ticks"))
    }
    async fn tocks(&self, ctx: &Context<'_>) -> impl Stream<Item = Tick> {
        stream::iter(events(ctx, "tocks"))
    }
}

fn gen_world(s: &mut dyn Src) -> World {
    let mut w = World::default();
    w.nodes.push(Node { ty: "Query".into(), fields: IndexMap::new() });
    w.nodes.push(Node { ty: "Sub".into(), fields: IndexMap::new() });
    w.query_root = 0;
    w.subscription_root = Some(1);
    let mut lists: Vec<Vec<WVal>> = vec![vec![], vec![]];
    let n_events = [1 + s.choose(3), s.choose(3)];
    for (li, n) in n_events.iter().enumerate() {
        for _ in 0..*n {
            let idx = w.nodes.len();
            let mut f = IndexMap::new();
            f.insert("id".to_string(), WVal::Int(idx as i64 * 10));
            f.insert("val".to_string(), if s.chance(1, 4) { WVal::Null } else { WVal::Int(s.range(-5, 5)) });
            f.insert("note".to_string(), if s.chance(1, 4) { WVal::Null } else { WVal::Str(format!("n{}", idx)) });
            f.insert("strict".to_string(), WVal::Int(s.range(0, 9)));
            f.insert("next".to_string(), if idx > 2 && s.bool() { WVal::Ref(2 + s.choose(idx - 2)) } else { WVal::Null });
            w.nodes.push(Node { ty: "Tick".into(), fields: f });
            lists[li].push(WVal::Ref(idx));
            // faults at nullable positions (and, rarely, the non-null one)
            for field in ["val", "note", "next"] {
                if s.chance(1, 4) {
                    w.faults.insert((idx, field.to_string()), Fault::ResolverError);
                }
            }
            if s.chance(1, 10) {
                w.faults.insert((idx, "strict".to_string()), Fault::ResolverError);
            }
        }
    }
    w.nodes[1].fields.insert("ticks".into(), WVal::List(lists[0].clone()));
    w.nodes[1].fields.insert("tocks".into(), WVal::List(lists[1].clone()));
    w
}

fn tick_sel(s: &mut dyn Src, depth: usize, alias: &mut u32) -> SelSet {
    let mut items = vec![Selection::Field(qa::Field::new("id"))];
    for name in ["val", "note", "strict", "next"] {
        if s.chance(2, 3) {
            let mut f = qa::Field::new(name);
            if name == "next" {
                if depth == 0 {
                    continue;
                }
                f.sel = tick_sel(s, depth - 1, alias);
            }
            if s.chance(1, 4) {
                *alias += 1;
                f.alias = Some(qa::Name::new(format!("k{}", alias)));
            }
            items.push(Selection::Field(f));
        }
    }
    SelSet::new(items)
}

/// `migrate_ok` = quirk of C27-F1: with several root fields an error may be attached to the response of another
/// root field's event (errors are conserved: none lost, none invented; data is always the event's own)
fn sub_case(schema: &Schema<Query, EmptyMutation, Sub>, sch: &Sch, s: &mut dyn Src, two_roots: bool, migrate_ok: bool) -> Case {
    let world = gen_world(s);
    let mut alias = 0;
    let mut roots = vec!["ticks"];
    if two_roots {
        roots.push("tocks");
    }
    let mut items = vec![];
    for r in &roots {
        let mut f = qa::Field::new(r);
        f.sel = tick_sel(s, 2, &mut alias);
        items.push(Selection::Field(f));
    }
    let mut doc = Doc { defs: vec![Def::Op(OpDef { pos: Pos::default(), explicit: true, kind: OpKind::Subscription, name: None, vars: vec![], directives: vec![], sel: SelSet::new(items) })] };
    let text = print_plain(&mut doc);
    let head = format!("world: {}\nsubscription: {}", world.show(), text);
    // expected responses per root field, in event order
    let mut expected: IndexMap<String, Vec<vgql::refexec::RefOut>> = IndexMap::new();
    for r in &roots {
        let evs = match world.value(1, r) {
            Some(WVal::List(l)) => l.clone(),
            _ => vec![],
        };
        for ev in evs {
            let mut w1 = world.clone();
            w1.nodes[1].fields.insert(r.to_string(), ev.clone());
            // the single-event document: only this root field
            let mut d1 = doc.clone();
            if let Def::Op(o) = &mut d1.defs[0] {
                o.sel.items.retain(|i| matches!(i, Selection::Field(f) if f.name.s == *r));
            }
            match execute(sch, &d1, None, &IndexMap::new(), &w1, Quirks::default()) {
                Ok(o) => expected.entry(r.to_string()).or_default().push(o),
                Err(e) => return Case::fail(head, format!("HARNESS: reference executor: {:?}", e)),
            }
        }
    }
    let rt = Rt::new(world.clone());
    rt.set_gated(true);
    let out: Arc<Mutex<Vec<Response>>> = Arc::new(Mutex::new(vec![]));
    let mut st = schema.execute_stream(Request::new(text.clone()).data(rt.clone()));
    let o2 = out.clone();
    let mut sim = Sim::new();
    let t = sim.spawn("stream", Box::pin(async move {
        while let Some(r) = st.next().await {
            o2.lock().unwrap().push(r);
        }
    }));
    let mut opened = vec![];
    let mut steps = 0;
    loop {
        if !sim.settle() {
            return Case::fail(head, "livelock while polling the response stream".to_string());
        }
        if sim.is_done(t) {
            break;
        }
        let p = rt.gates.pending();
        if p.is_empty() {
            return Case::fail(head, "response stream stalled with no pending gate".to_string());
        }
        let k = s.choose(p.len());
        opened.push(p[k].1.clone());
        rt.gates.open(p[k].0);
        steps += 1;
        if steps > 10_000 {
            return Case::fail(head, "step bound exceeded".to_string());
        }
    }
    let responses: Vec<Response> = std::mem::take(&mut *out.lock().unwrap());
    // a rejected request (e.g. several root fields rejected by validation) is a single error response
    let total_events: usize = expected.values().map(|v| v.len()).sum();
    if two_roots && responses.len() == 1 && responses[0].data == Value::Null && !responses[0].errors.is_empty() && responses[0].errors.iter().all(|e| e.path.is_empty()) {
        return Case::pass(head).class("two-root-fields-rejected");
    }
    if responses.len() != total_events {
        return Case::fail(head, format!("{} responses for {} events (gate order {:?})", responses.len(), total_events, opened));
    }
    let mut seen: IndexMap<String, usize> = IndexMap::new();
    let mut interleaved = false;
    let mut last_root: Option<String> = None;
    let mut with_errors = 0;
    let mut migrated = false;
    let mut all_expected: Vec<String> = vec![];
    let mut all_reported: Vec<String> = vec![];
    for resp in &responses {
        let data = resp_data(resp);
        let root = match &data {
            serde_json::Value::Object(m) if m.len() == 1 => m.keys().next().unwrap().clone(),
            serde_json::Value::Object(m) => return Case::fail(head, format!("an event response carries {} root keys: {}", m.len(), data)),
            _ => match resp.errors.iter().find_map(|e| e.path.first()) {
                Some(PathSegment::Field(f)) => f.clone(),
                _ => return Case::fail(head, format!("cannot attribute a response without data to a root field: errors {:?}", resp.errors)),
            },
        };
        if let Some(l) = &last_root {
            if *l != root {
                interleaved = true;
            }
        }
        last_root = Some(root.clone());
        let k = *seen.get(&root).unwrap_or(&0);
        seen.insert(root.clone(), k + 1);
        let want = match expected.get(&root).and_then(|v| v.get(k)) {
            Some(w) => w,
            None => return Case::fail(head, format!("response #{} for root field {} has no corresponding event", k, root)),
        };
        if !want.errors.is_empty() {
            with_errors += 1;
        }
        if migrate_ok {
            // quirk mode: data must still be the event's own; errors are compared globally below
            let wd = want.data.clone().unwrap_or(serde_json::Value::Null);
            if wd != resp_data(resp) {
                return Case::fail(head, format!("event #{} of `{}`: data differs: expected {} got {}", k, root, wd, resp_data(resp)));
            }
            if compare_errors(want, resp).is_err() {
                migrated = true;
            }
            for e in &want.errors {
                all_expected.push(format!("{}@{}:{}", show_path(&e.path), e.loc.line, e.loc.col));
            }
            for (p, l, _) in resp_errors(resp) {
                all_reported.push(format!("{}@{}", show_path(&p), l.first().map(|x| format!("{}:{}", x.line, x.col)).unwrap_or_default()));
            }
            continue;
        }
        if let Err(e) = compare(want, resp) {
            return Case::fail(head, format!("event #{} of `{}` (gate order {:?}): {}; response errors: {:?}", k, root, opened, e, resp.errors.iter().map(|e| format!("{} @{:?}", e.message, e.path)).collect::<Vec<_>>()));
        }
        // the errors must be this event's own: messages carry the node id
        let node_of_event = match world.value(1, &root) {
            Some(WVal::List(l)) => match &l[k] {
                WVal::Ref(n) => *n,
                _ => 0,
            },
            _ => 0,
        };
        let _ = node_of_event;
        for e in &resp.errors {
            // fault node#N field: N must be reachable from this event through the error's path (`next` links)
            if let Some(rest) = e.message.strip_prefix("fault node#") {
                let n: usize = rest.split(' ').next().unwrap_or("0").parse().unwrap_or(0);
                let ok = want.touches.iter().any(|t| t.node == n && e.path.len() == t.path.len() && show_path(&t.path) == e.path.iter().map(|s| match s { PathSegment::Field(f) => f.clone(), PathSegment::Index(i) => i.to_string() }).collect::<Vec<_>>().join("."));
                if !ok {
                    return Case::fail(head, format!("event #{} of `{}` reports an error of another event: {}", k, root, e.message));
                }
            }
        }
        let _ = Seg::Idx(0);
    }
    if migrate_ok {
        // nulled regions may legitimately drop inner errors: compare only when no propagation is involved
        all_expected.sort();
        all_reported.sort();
        let propagating = expected.values().flatten().any(|o| o.errors.iter().any(|e| e.nulled != e.path));
        if !propagating && all_expected != all_reported {
            return Case::fail(head, format!("errors are not conserved across the responses: expected {:?}, reported {:?}", all_expected, all_reported));
        }
        if migrated {
            return Case::known(head, vec!["C27-F1".into()]).class("two-root-fields").class("errors-migrated");
        }
    }
    Case::pass(head)
        .nontrivial(with_errors > 0 && (interleaved || responses.len() >= 2))
        .class(if two_roots { "two-root-fields" } else { "single-root-field" })
        .class_if(interleaved, "responses-of-root-fields-interleaved")
        .class_if(with_errors > 0, "events-with-errors")
}

fn one_response_case(z: &vschemas::z::ZSchema, zsch: &Sch, s: &mut dyn Src, tcfg: &vgql::gentyped::TypedCfg) -> Case {
    let world = vgql::world::gen_world(zsch, s, &vgql::world::WorldCfg::default());
    let mut td = vgql::gentyped::gen_typed_doc(zsch, s, tcfg);
    let text = print_plain(&mut td.doc);
    let head = format!("world: {}\nquery: {}\nvariables: {}", world.show(), text, vars_json(&td.vars));
    let want = match execute(zsch, &td.doc, td.op_name.as_deref(), &td.vars, &world, Quirks::default()) {
        Ok(w) => w,
        Err(e) => return Case::fail(head, format!("HARNESS: reference executor: {:?}", e)),
    };
    let rt = Rt::new(world);
    let st = z.execute_stream(request(&text, &td.vars, td.op_name.as_deref()).data(rt));
    let responses: Vec<Response> = vcore::det::block_on(st.collect::<Vec<_>>());
    if responses.len() != 1 {
        return Case::fail(head, format!("execute_stream of a {:?} yielded {} responses", td.doc.ops().next().map(|o| o.kind), responses.len()));
    }
    match compare(&want, &responses[0]) {
        Ok(()) => Case::pass(head).nontrivial(true).class("streamed-query-or-mutation"),
        Err(e) => Case::fail(head, e),
    }
}

pub fn run(ctx: &mut Ctx) {
    ctx.rule = "subscriptions on a derive-built schema whose event objects have nullable failing sub-fields (and rarely a failing non-null one) gated by the deterministic executor; one and two root \
                fields with 0-3 events each; gate-opening orders generated; every response must carry exactly one root key, equal the reference execution of its own event (data exactly, errors by path+location), \
                and every reported error must belong to that event (messages carry the node id). Streamed queries/mutations on Z must yield exactly one response equal to the reference. Non-trivial = an event with \
                errors in a stream of >=2 responses; distinct by rendered case".into();
    ctx.assume("documents with two subscription root fields are outside the specification (single root field rule): if the implementation rejects them that is accepted; if it accepts them the per-event property must hold");
    let schema = Schema::build(Query, EmptyMutation, Sub).finish();
    let mut sch = vgql::sch::from_sdl_text(&schema.sdl()).expect("SDL");
    for b in vgql::sch::BUILTIN_SCALARS {
        sch.types.shift_remove(b);
    }
    let n = ctx.tier.pick(20_000, 600_000);
    let f1 = ctx.open("C27-F1");
    ctx.stream("single-root", n, 300, |s| sub_case(&schema, &sch, s, false, false));
    if f1 {
        ctx.excluded("C27-F1");
        ctx.stream("probe-two-roots", n / 10, 300, |s| sub_case(&schema, &sch, s, true, true));
    } else {
        ctx.stream("two-roots", n / 2, 300, |s| sub_case(&schema, &sch, s, true, false));
    }
    let z = vschemas::z::build_z(|b| b);
    let zsch = vschemas::z::z_sch(&z);
    let mut tcfg = crate::c02::typed_cfg(ctx, "C27");
    tcfg.ops = vec![OpKind::Query, OpKind::Mutation];
    ctx.stream("streamed-query-mutation", n / 4, 600, |s| one_response_case(&z, &zsch, s, &tcfg));
}
