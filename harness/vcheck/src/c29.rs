//! C29 — not built yet.
use vcore::Ctx;

pub fn run(_ctx: &mut Ctx) {
    eprintln!("C29: check not built yet");
    std::process::exit(2);
}
