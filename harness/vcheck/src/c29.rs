//! C29 — DataLoader cache operations behave like the documented cache.
//!
//! Histories of load_one / load_many / feed_one / feed_many / clear / clear_one / enable_cache /
//! enable_all_cache / get_cached_values over two key types are executed one operation at a time on a fresh
//! `DataLoader` (queueing spawner drained after every operation, zero-delay timer) in lock-step with a reference
//! cache model written from the documentation. The loader's values encode a per-call counter, so "served from
//! the cache" and "served by the loader" are distinguishable for every key.
use async_graphql::dataloader::{CacheFactory, CacheStorage, DataLoader, HashMapCache, Loader, LruCache, NoCache};
use async_graphql::runtime::Timer;
use futures_util::future::BoxFuture;
use futures_util::task::{FutureObj, Spawn, SpawnError};
use futures_util::FutureExt;
use std::cell::Cell;
use std::collections::{BTreeMap, BTreeSet, HashMap};
use std::future::Future;
use std::hash::Hash;
use std::sync::{Arc, Mutex};
use std::time::Duration;
use vcore::det::{Sim, SpawnQueue};
use vcore::drive::catch;
use vcore::{json, Case, Ctx, Src};

// ------------------------------------------------------------------------------------------------------
// pieces shared with C28: cache-mode factory, queueing spawner, HashMap with a chosen iteration order

#[derive(Clone, Copy, PartialEq, Eq, Debug)]
pub(crate) enum Mode {
    No,
    Hash,
    Lru(usize),
}
impl Mode {
    pub(crate) fn name(self) -> String {
        match self {
            Mode::No => "NoCache".into(),
            Mode::Hash => "HashMapCache".into(),
            Mode::Lru(c) => format!("LruCache({})", c),
        }
    }
}

/// one factory type for the three documented cache implementations
pub(crate) struct AnyCache(pub(crate) Mode);
impl CacheFactory for AnyCache {
    fn create<K, V>(&self) -> Box<dyn CacheStorage<Key = K, Value = V>>
    where
        K: Send + Sync + Clone + Eq + Hash + 'static,
        V: Send + Sync + Clone + 'static,
    {
        match self.0 {
            Mode::No => NoCache.create::<K, V>(),
            Mode::Hash => HashMapCache::default().create::<K, V>(),
            Mode::Lru(c) => LruCache::new(c).create::<K, V>(),
        }
    }
}

/// `Spawn` that only queues; the deterministic executor adopts the queue
pub(crate) struct QSpawner(pub(crate) SpawnQueue);
impl Spawn for QSpawner {
    fn spawn_obj(&self, f: FutureObj<'static, ()>) -> Result<(), SpawnError> {
        self.0.push("bg", Box::pin(f));
        Ok(())
    }
}

/// A std `HashMap` whose iteration order is the order of `pairs` (keys distinct). The order of a `HashMap` is
/// unspecified and differs per instance (`RandomState`); a `Loader` returns one and the DataLoader inserts its
/// entries into the cache in iteration order. Re-creating the map until the order matches makes every run a
/// function of the case alone (expected n! attempts, n <= 6 here). The oracles never rely on the order.
pub(crate) fn ordered_map<K: Hash + Eq + Copy, V: Copy>(pairs: &[(K, V)]) -> HashMap<K, V> {
    let mut m: HashMap<K, V> = HashMap::new();
    for _ in 0..20_000 {
        m = HashMap::new();
        m.extend(pairs.iter().copied());
        if pairs.len() < 2 || m.keys().zip(pairs).all(|(a, b)| *a == b.0) {
            break;
        }
    }
    m
}

// ------------------------------------------------------------------------------------------------------
// world: scripted loader over two key types

trait KeyTy: Copy + Send + Sync + Hash + Eq + 'static {
    const TY: usize;
    fn mk(k: u8) -> Self;
    fn ix(self) -> u8;
}
impl KeyTy for u32 {
    const TY: usize = 0;
    fn mk(k: u8) -> u32 {
        k as u32
    }
    fn ix(self) -> u8 {
        self as u8
    }
}
impl KeyTy for u64 {
    const TY: usize = 1;
    fn mk(k: u8) -> u64 {
        k as u64
    }
    fn ix(self) -> u8 {
        self as u8
    }
}

#[derive(Default)]
struct Backing {
    /// (key type, keys as passed) of every `Loader::load` call so far
    calls: Vec<(usize, Vec<u8>)>,
    /// behaviour of the next call(s): fail, omitted keys (bit mask), descending insertion order
    fail: bool,
    omit: u8,
    desc: bool,
}

fn fresh_value(call: usize, key: u8) -> u32 {
    1000 * (call as u32 + 1) + key as u32
}

struct ScriptedLoader(Arc<Mutex<Backing>>);
impl<K: KeyTy> Loader<K> for ScriptedLoader {
    type Value = u32;
    type Error = u32;
    async fn load(&self, keys: &[K]) -> Result<HashMap<K, u32>, u32> {
        let mut b = self.0.lock().unwrap();
        let j = b.calls.len();
        b.calls.push((K::TY, keys.iter().map(|k| k.ix()).collect()));
        if b.fail {
            return Err(j as u32);
        }
        let mut ks: Vec<u8> = keys.iter().map(|k| k.ix()).filter(|k| b.omit & (1 << k) == 0).collect();
        ks.sort();
        ks.dedup();
        if b.desc {
            ks.reverse();
        }
        let pairs: Vec<(K, u32)> = ks.iter().map(|k| (K::mk(*k), fresh_value(j, *k))).collect();
        Ok(ordered_map(&pairs))
    }
}

struct ZeroTimer;
impl Timer for ZeroTimer {
    fn delay(&self, _d: Duration) -> BoxFuture<'static, ()> {
        futures_util::future::ready(()).boxed()
    }
}

type Dl = DataLoader<ScriptedLoader, AnyCache>;

struct World {
    sim: Sim,
    dl: Arc<Dl>,
    backing: Arc<Mutex<Backing>>,
}

enum Ran<T> {
    Done(T),
    Stalled,
    Panicked(String),
}

impl World {
    fn new(mode: Mode, max_batch: usize) -> World {
        let sim = Sim::new();
        let backing = Arc::new(Mutex::new(Backing::default()));
        let dl = DataLoader::with_cache(ScriptedLoader(backing.clone()), QSpawner(sim.spawned.clone()), ZeroTimer, AnyCache(mode))
            .max_batch_size(max_batch);
        World { sim, dl: Arc::new(dl), backing }
    }
    /// run one operation as a task and every task it spawns until nothing is runnable
    fn run<T: Send + 'static>(&mut self, f: impl Future<Output = T> + Send + 'static) -> Ran<T> {
        let out: Arc<Mutex<Option<T>>> = Arc::new(Mutex::new(None));
        let o2 = out.clone();
        self.sim.spawn(
            "op",
            Box::pin(async move {
                let v = f.await;
                *o2.lock().unwrap() = Some(v);
            }),
        );
        let sim = &mut self.sim;
        match catch(|| sim.settle()) {
            Err(p) => Ran::Panicked(p),
            Ok(_) => match out.lock().unwrap().take() {
                Some(v) => Ran::Done(v),
                None => Ran::Stalled,
            },
        }
    }
}

// ------------------------------------------------------------------------------------------------------
// reference cache model (written from the documentation of NoCache / HashMapCache / LruCache and of
// feed / clear / clear_one / enable_cache / enable_all_cache)

/// LruCache: most recently used first; HashMapCache: ascending key; NoCache: always empty
type State = Vec<(u8, u32)>;

struct CacheModel {
    mode: Mode,
    /// every cache state that the documentation allows after the operations so far
    states: BTreeSet<State>,
    /// enable_cache::<K> flag of this key type
    enabled: bool,
    evicted: bool,
}

fn perms<T: Clone>(xs: &[T]) -> Vec<Vec<T>> {
    if xs.len() <= 1 {
        return vec![xs.to_vec()];
    }
    let mut out = vec![];
    for i in 0..xs.len() {
        let mut rest = xs.to_vec();
        let x = rest.remove(i);
        for mut p in perms(&rest) {
            p.insert(0, x.clone());
            out.push(p);
        }
    }
    out
}

impl CacheModel {
    fn new(mode: Mode) -> CacheModel {
        CacheModel { mode, states: [vec![]].into_iter().collect(), enabled: true, evicted: false }
    }
    /// "Puts a key-value pair into the cache. If the key already exists in the cache, then it updates the
    /// key's value"; an LRU treats that as a use and drops the least recently used entry beyond its capacity
    fn put(&mut self, st: &mut State, k: u8, v: u32) {
        match self.mode {
            Mode::No => {}
            Mode::Hash => {
                st.retain(|e| e.0 != k);
                st.push((k, v));
                st.sort();
            }
            Mode::Lru(cap) => {
                st.retain(|e| e.0 != k);
                st.insert(0, (k, v));
                if st.len() > cap {
                    st.truncate(cap);
                    self.evicted = true;
                }
            }
        }
    }
    fn insert_seq(&mut self, pairs: &[(u8, u32)]) {
        let old = std::mem::take(&mut self.states);
        for mut st in old {
            for (k, v) in pairs {
                self.put(&mut st, *k, *v);
            }
            self.states.insert(st);
        }
    }
    /// a batch whose insertion order is unspecified (it arrives as a `HashMap`)
    fn insert_unordered(&mut self, pairs: &[(u8, u32)]) {
        if !matches!(self.mode, Mode::Lru(_)) {
            return self.insert_seq(pairs);
        }
        let old = std::mem::take(&mut self.states);
        let ps = perms(pairs);
        for st in old {
            for p in &ps {
                let mut s2 = st.clone();
                for (k, v) in p {
                    self.put(&mut s2, *k, *v);
                }
                self.states.insert(s2);
            }
        }
    }
    fn remove(&mut self, k: u8) {
        self.states = std::mem::take(&mut self.states).into_iter().map(|mut s| {
            s.retain(|e| e.0 != k);
            s
        }).collect();
    }
    fn clear(&mut self) {
        self.states = [vec![]].into_iter().collect();
    }
    /// A load with caching enabled asked the loader for exactly `missed`; `got` is the Ok result (None if the
    /// load failed). Keep the states in which exactly the other keys are held, with the returned values; a hit
    /// is a use (the order of the uses within one load is unspecified).
    fn load(&mut self, keys: &[u8], missed: &BTreeSet<u8>, got: Option<&BTreeMap<u8, u32>>) -> Result<bool, String> {
        let mut next = BTreeSet::new();
        let mut any_hit = false;
        for st in &self.states {
            let hits: Vec<u8> = keys.iter().copied().filter(|k| st.iter().any(|e| e.0 == *k)).collect();
            let misses: BTreeSet<u8> = keys.iter().copied().filter(|k| !hits.contains(k)).collect();
            if &misses != missed {
                continue;
            }
            if let Some(m) = got {
                if hits.iter().any(|k| m.get(k) != st.iter().find(|e| e.0 == *k).map(|e| &e.1)) {
                    continue;
                }
            }
            any_hit |= !hits.is_empty();
            if let Mode::Lru(_) = self.mode {
                for p in perms(&hits) {
                    let mut s2 = st.clone();
                    for k in p {
                        let i = s2.iter().position(|e| e.0 == k).unwrap();
                        let e = s2.remove(i);
                        s2.insert(0, e);
                    }
                    next.insert(s2);
                }
            } else {
                next.insert(st.clone());
            }
        }
        if next.is_empty() {
            return Err(format!(
                "loader was asked for {:?} and the load returned {:?}, but the cache must be in one of the states {:?} ({}; LRU states list the most recently used entry first)",
                missed, got, self.states, self.mode.name()
            ));
        }
        self.states = next;
        Ok(any_hit)
    }
    fn cached(&mut self, content: &BTreeMap<u8, u32>) -> Result<(), String> {
        let next: BTreeSet<State> =
            self.states.iter().filter(|st| &st.iter().copied().collect::<BTreeMap<u8, u32>>() == content).cloned().collect();
        if next.is_empty() {
            return Err(format!("get_cached_values returned {:?}, but the cache must be in one of the states {:?} ({})", content, self.states, self.mode.name()));
        }
        self.states = next;
        Ok(())
    }
}

// ------------------------------------------------------------------------------------------------------
// histories

#[derive(Clone, Debug)]
enum Op {
    Load { ty: usize, keys: Vec<u8>, one: bool, fail: bool, omit: u8, desc: bool },
    Feed { ty: usize, pairs: Vec<(u8, u32)>, one: bool },
    ClearOne { ty: usize, key: u8 },
    Clear { ty: usize },
    EnableType { ty: usize, on: bool },
    EnableAll { on: bool },
    Cached { ty: usize },
}

const KEYS: usize = 5;
const F1: &str = "C29-F1";

struct History {
    mode: Mode,
    max_batch: usize,
    ops: Vec<Op>,
}

impl History {
    fn text(&self) -> String {
        let ty = |t: &usize| if *t == 0 { "u32" } else { "u64" };
        let ops: Vec<String> = self
            .ops
            .iter()
            .map(|o| match o {
                Op::Load { ty: t, keys, one, fail, omit, desc } => {
                    let mut s = if *one { format!("load_one::<{}>({})", ty(t), keys[0]) } else { format!("load_many::<{}>({:?})", ty(t), keys) };
                    if *fail {
                        s.push_str("[loader fails]");
                    }
                    if *omit != 0 {
                        s.push_str(&format!("[loader omits {:?}]", (0..KEYS as u8).filter(|k| omit & (1 << k) != 0).collect::<Vec<_>>()));
                    }
                    if *desc {
                        s.push_str("[desc]");
                    }
                    s
                }
                Op::Feed { ty: t, pairs, one } => {
                    if *one {
                        format!("feed_one::<{}>({},{})", ty(t), pairs[0].0, pairs[0].1)
                    } else {
                        format!("feed_many::<{}>({:?})", ty(t), pairs)
                    }
                }
                Op::ClearOne { ty: t, key } => format!("clear_one::<{}>({})", ty(t), key),
                Op::Clear { ty: t } => format!("clear::<{}>()", ty(t)),
                Op::EnableType { ty: t, on } => format!("enable_cache::<{}>({})", ty(t), on),
                Op::EnableAll { on } => format!("enable_all_cache({})", on),
                Op::Cached { ty: t } => format!("get_cached_values::<{}>()", ty(t)),
            })
            .collect();
        format!("{} max_batch_size={} fresh loader; {}", self.mode.name(), self.max_batch, ops.join("; "))
    }
}

/// `allow_untouched_enable`: may `enable_cache::<K>` come before any other operation on K (the construct of
/// C29-F1)? Returns the history and how many such draws were replaced.
fn gen_history(s: &mut dyn Src, max_ops: usize, allow_untouched_enable: bool) -> (History, u64) {
    let mode = match s.choose(7) {
        0 => Mode::Hash,
        1 => Mode::Lru(2),
        2 => Mode::Lru(1),
        3 => Mode::Lru(3),
        4 => Mode::Lru(4),
        5 => Mode::No,
        _ => Mode::Lru(2),
    };
    let max_batch = [1000, 2, 1, 3][s.weighted(&[5, 1, 1, 1])];
    let n = 1 + s.choose(max_ops);
    let mut ops = vec![];
    let mut touched = [false; 2];
    let mut replaced = 0;
    for i in 0..n {
        let ty = s.weighted(&[5, 1]);
        let key = |s: &mut dyn Src| s.choose(KEYS) as u8;
        let mut op = match s.weighted(&[5, 5, 3, 2, 2, 1, 2, 2, 2]) {
            0 => Op::Load { ty, keys: vec![key(s)], one: true, fail: s.chance(1, 12), omit: if s.chance(1, 8) { s.choose(32) as u8 } else { 0 }, desc: false },
            1 => {
                let k = s.weighted(&[1, 3, 6, 5, 3, 2]);
                Op::Load {
                    ty,
                    keys: (0..k).map(|_| key(s)).collect(),
                    one: false,
                    fail: s.chance(1, 12),
                    omit: if s.chance(1, 8) { s.choose(32) as u8 } else { 0 },
                    desc: s.bool(),
                }
            }
            2 => Op::Feed { ty, pairs: vec![(key(s), 500_000 + 10 * i as u32)], one: true },
            3 => {
                let k = s.choose(5);
                Op::Feed { ty, pairs: (0..k).map(|j| (key(s), 500_000 + 10 * i as u32 + j as u32)).collect(), one: false }
            }
            4 => Op::ClearOne { ty, key: key(s) },
            5 => Op::Clear { ty },
            6 => Op::EnableType { ty, on: s.weighted(&[2, 1]) == 0 },
            7 => Op::EnableAll { on: s.weighted(&[2, 1]) == 0 },
            _ => Op::Cached { ty },
        };
        match &op {
            Op::EnableType { ty, on } if !touched[*ty] && !allow_untouched_enable => {
                replaced += 1;
                op = Op::EnableAll { on: *on };
            }
            Op::Load { ty, .. } | Op::Feed { ty, .. } | Op::ClearOne { ty, .. } | Op::Clear { ty } | Op::EnableType { ty, .. } => touched[*ty] = true,
            _ => {}
        }
        ops.push(op);
    }
    (History { mode, max_batch, ops }, replaced)
}

#[derive(Default)]
struct Seen {
    hit: bool,
    miss: bool,
    mixed: bool,
    disabled_load: bool,
    loader_error: bool,
    omission: bool,
    multi_state: bool,
    immediate: bool,
    second_type: bool,
    untouched_enable: bool,
    nocache_feed_then_load: bool,
    evicted: bool,
}

struct Lockstep {
    w: World,
    models: [CacheModel; 2],
    all_enabled: bool,
    /// has any operation other than enable_cache / get_cached_values been applied to the key type?
    touched: [bool; 2],
    fed: [BTreeSet<u8>; 2],
    seen: Seen,
    f1_open: bool,
}

enum Step {
    Ok,
    Fail(String),
    Known(&'static str),
}

fn ran<T>(r: Ran<T>, what: &str) -> Result<T, Step> {
    match r {
        Ran::Done(v) => Ok(v),
        Ran::Stalled => Err(Step::Fail(format!("{} did not complete although every spawned task was run and the timer fires at once", what))),
        Ran::Panicked(p) => Err(Step::Fail(format!("{} panicked: {}", what, p))),
    }
}

impl Lockstep {
    fn new(h: &History, f1_open: bool) -> Lockstep {
        Lockstep {
            w: World::new(h.mode, h.max_batch),
            models: [CacheModel::new(h.mode), CacheModel::new(h.mode)],
            all_enabled: true,
            touched: [false; 2],
            fed: Default::default(),
            seen: Seen::default(),
            f1_open,
        }
    }

    fn step(&mut self, op: &Op, max_batch: usize) -> Step {
        let r = match op {
            Op::Load { ty: 0, .. } | Op::Feed { ty: 0, .. } | Op::ClearOne { ty: 0, .. } | Op::Clear { ty: 0 } | Op::EnableType { ty: 0, .. } | Op::Cached { ty: 0 } => {
                self.step_typed::<u32>(op, max_batch)
            }
            Op::EnableAll { on } => {
                let dl = self.w.dl.clone();
                let on = *on;
                match catch(move || dl.enable_all_cache(on)) {
                    Ok(()) => {
                        self.all_enabled = on;
                        Ok(())
                    }
                    Err(p) => Err(Step::Fail(format!("enable_all_cache panicked: {}", p))),
                }
            }
            _ => {
                self.seen.second_type = true;
                self.step_typed::<u64>(op, max_batch)
            }
        };
        for m in &self.models {
            self.seen.multi_state |= m.states.len() > 1;
            self.seen.evicted |= m.evicted;
        }
        match r {
            Ok(()) => Step::Ok,
            Err(s) => s,
        }
    }

    fn step_typed<K: KeyTy>(&mut self, op: &Op, max_batch: usize) -> Result<(), Step> {
        let t = K::TY;
        let dl = self.w.dl.clone();
        match op {
            Op::Load { keys, one, fail, omit, desc, .. } => {
                let calls_before = {
                    let mut b = self.w.backing.lock().unwrap();
                    b.fail = *fail;
                    b.omit = *omit;
                    b.desc = *desc;
                    b.calls.len()
                };
                let ks: Vec<K> = keys.iter().map(|k| K::mk(*k)).collect();
                let actual: Result<BTreeMap<u8, u32>, u32> = if *one {
                    let k = ks[0];
                    ran(self.w.run(async move { dl.load_one(k).await }), "load_one")?.map(|o| o.into_iter().map(|v| (keys[0], v)).collect())
                } else {
                    ran(self.w.run(async move { dl.load_many(ks).await }), "load_many")?.map(|m| m.into_iter().map(|(k, v)| (k.ix(), v)).collect())
                };
                self.touched[t] = true;
                let new_calls: Vec<(usize, Vec<u8>)> = self.w.backing.lock().unwrap().calls[calls_before..].to_vec();
                if new_calls.len() > 1 || new_calls.iter().any(|c| c.0 != t) {
                    return Err(Step::Fail(format!("one sequential load made these Loader::load calls (key type, keys): {:?}", new_calls)));
                }
                let distinct: Vec<u8> = keys.iter().copied().collect::<BTreeSet<u8>>().into_iter().collect();
                let missed: BTreeSet<u8> = new_calls.first().map(|c| c.1.iter().copied().collect()).unwrap_or_default();
                if !missed.iter().all(|k| distinct.contains(k)) {
                    return Err(Step::Fail(format!("loader was asked for {:?}, not all of them requested", missed)));
                }
                let j = calls_before;
                // the part of the result that must come from this loader call
                let got = match (&actual, *fail && !missed.is_empty()) {
                    (Err(e), true) => {
                        if *e as usize != j {
                            return Err(Step::Fail(format!("load failed with Err({}), the failing loader call returned Err({})", e, j)));
                        }
                        self.seen.loader_error = true;
                        None
                    }
                    (Ok(m), false) => {
                        for k in &missed {
                            let want = if omit & (1 << k) != 0 { None } else { Some(fresh_value(j, *k)) };
                            self.seen.omission |= want.is_none();
                            if m.get(k).copied() != want {
                                return Err(Step::Fail(format!("key {}: load returned {:?}, the loader returned {:?} for it", k, m.get(k), want)));
                            }
                        }
                        if let Some(k) = m.keys().find(|k| !distinct.contains(k)) {
                            return Err(Step::Fail(format!("result contains key {} that was not requested", k)));
                        }
                        Some(m)
                    }
                    (a, _) => {
                        return Err(Step::Fail(format!("load returned {:?}; loader call made: {:?}, scripted to fail: {}", a, new_calls, fail)));
                    }
                };
                let caching = self.all_enabled && self.models[t].enabled;
                if caching {
                    let any_hit = self.models[t].load(&distinct, &missed, got).map_err(Step::Fail)?;
                    self.seen.hit |= any_hit;
                    self.seen.miss |= !missed.is_empty();
                    self.seen.mixed |= any_hit && !missed.is_empty();
                    if let (Some(_), false) = (got, missed.is_empty()) {
                        let pairs: Vec<(u8, u32)> = missed.iter().filter(|k| omit & (1 << **k) == 0).map(|k| (*k, fresh_value(j, *k))).collect();
                        self.models[t].insert_unordered(&pairs);
                    }
                } else {
                    // caching disabled: every requested key is the loader's, the cache is neither read nor filled
                    if missed.len() != distinct.len() {
                        return Err(Step::Fail(format!("caching is disabled but the loader was asked only for {:?} of {:?}", missed, distinct)));
                    }
                    self.seen.disabled_load |= !distinct.is_empty();
                }
                self.seen.immediate |= !missed.is_empty() && missed.len() >= max_batch;
                if self.models[t].mode == Mode::No && distinct.iter().any(|k| self.fed[t].contains(k)) {
                    self.seen.nocache_feed_then_load = true;
                }
                Ok(())
            }
            Op::Feed { pairs, one, .. } => {
                let ps: Vec<(K, u32)> = pairs.iter().map(|(k, v)| (K::mk(*k), *v)).collect();
                if *one {
                    let (k, v) = ps[0];
                    ran(self.w.run(async move { dl.feed_one(k, v).await }), "feed_one")?;
                } else {
                    ran(self.w.run(async move { dl.feed_many(ps).await }), "feed_many")?;
                }
                self.touched[t] = true;
                self.fed[t].extend(pairs.iter().map(|p| p.0));
                // "Feed some data into the cache": in the given order, whatever the enable flags say
                self.models[t].insert_seq(pairs);
                Ok(())
            }
            Op::ClearOne { key, .. } => {
                let k = K::mk(*key);
                catch(move || dl.clear_one(&k)).map_err(|p| Step::Fail(format!("clear_one panicked: {}", p)))?;
                self.touched[t] = true;
                self.models[t].remove(*key);
                Ok(())
            }
            Op::Clear { .. } => {
                catch(move || dl.clear::<K>()).map_err(|p| Step::Fail(format!("clear panicked: {}", p)))?;
                self.touched[t] = true;
                self.models[t].clear();
                Ok(())
            }
            Op::EnableType { on, .. } => {
                let on = *on;
                let fresh = !self.touched[t];
                self.seen.untouched_enable |= fresh;
                match self.w.run(async move { dl.enable_cache::<K>(on).await }) {
                    Ran::Done(()) => {
                        self.models[t].enabled = on;
                        Ok(())
                    }
                    Ran::Stalled => Err(Step::Fail("enable_cache did not complete".into())),
                    // quirk C29-F1: enable_cache::<K> panics (Option::unwrap on None in src/dataloader/mod.rs) exactly
                    // when no load / feed / clear / clear_one for K has been called on this DataLoader yet
                    Ran::Panicked(p) if self.f1_open && fresh && p.contains("Option::unwrap()") && p.contains("dataloader/mod.rs") => Err(Step::Known(F1)),
                    Ran::Panicked(p) => Err(Step::Fail(format!(
                        "enable_cache::<K>({}) panicked{}: {}",
                        on,
                        if fresh { " on a key type that has not been used yet" } else { "" },
                        p
                    ))),
                }
            }
            Op::Cached { .. } => {
                let m = ran(self.w.run(async move { dl.get_cached_values::<K>().await }), "get_cached_values")?;
                let content: BTreeMap<u8, u32> = m.into_iter().map(|(k, v)| (k.ix(), v)).collect();
                self.models[t].cached(&content).map_err(Step::Fail)
            }
            Op::EnableAll { .. } => unreachable!("handled by step"),
        }
    }
}

fn run_history(h: &History, f1_open: bool) -> Case {
    let mut ls = Lockstep::new(h, f1_open);
    let text = h.text();
    let mut verdict: Option<Case> = None;
    for (i, op) in h.ops.iter().enumerate() {
        match ls.step(op, h.max_batch) {
            Step::Ok => {}
            Step::Fail(why) => {
                verdict = Some(Case::fail(text.clone(), format!("operation #{} ({:?}): {}", i, op, why)));
                break;
            }
            Step::Known(f) => {
                verdict = Some(Case::known(text.clone(), vec![f.to_string()]));
                break;
            }
        }
    }
    let s = &ls.seen;
    let nontrivial = (s.hit && s.miss) || s.nocache_feed_then_load;
    let c = match verdict {
        Some(c) => c,
        None => Case::pass(text).nontrivial(nontrivial),
    };
    c.class(h.mode.name())
        .class_if(s.hit, "load-served-from-cache")
        .class_if(s.mixed, "load-partly-from-cache")
        .class_if(s.disabled_load, "load-with-caching-disabled")
        .class_if(s.loader_error, "loader-error")
        .class_if(s.omission, "loader-omits-key")
        .class_if(s.evicted, "lru-eviction")
        .class_if(s.multi_state, "lru-insertion-order-ambiguous")
        .class_if(s.immediate, "batch-reaches-max-batch-size")
        .class_if(s.second_type, "second-key-type")
        .class_if(s.untouched_enable, "enable_cache-before-first-use")
        .class_if(s.nocache_feed_then_load, "nocache-feed-then-load")
}

pub fn run(ctx: &mut Ctx) {
    ctx.rule = "random histories (1..=40 operations; load_one, load_many of 0..=5 keys with repeats, feed_one, feed_many, clear, clear_one, \
                enable_cache, enable_all_cache, get_cached_values; 5 keys; two key types u32/u64 on one DataLoader; NoCache, HashMapCache, \
                LruCache(1..=4); max_batch_size 1000/1/2/3; loader calls scripted to succeed, omit keys or fail) on a fresh DataLoader, one \
                operation at a time, compared with a reference cache model; non-trivial = the history contains a load served (partly) from \
                the cache and a load that reached the loader while caching was enabled (for NoCache: a load of a key that was fed before); \
                distinct by the rendered history"
        .into();
    ctx.assume("operations are sequential: each one (and every task it spawned, with a timer that fires at once) runs to completion before the next starts; concurrency is C28's domain");
    ctx.assume("reference decision: while caching is disabled (enable_all_cache(false) or enable_cache::<K>(false)) a load neither reads nor fills the cache; feed_*, clear, clear_one and get_cached_values act on the storage regardless of the flags; enable_cache::<K> is per key type, enable_all_cache is global, caching is enabled iff both are");
    ctx.assume("reference decision: LruCache counts a hit of a load, a feed and a loader-filled entry as a use; get_cached_values is not a use");
    ctx.assume("don't-care: the loader returns a HashMap, so the order in which one batch enters an LruCache is unspecified, and so is the order of the uses of the hits of one load_many; the model keeps every cache state either order allows and requires each observation (loader key set, returned values, get_cached_values) to be consistent with at least one");
    ctx.assume("feed_many inserts in the order of the given Vec (sequential iterator)");
    ctx.assume("a sequential load with at least one key not served from the cache makes exactly one Loader::load call (batch composition is C28's domain); the loader returns only keys it was asked for");
    ctx.assume("harness: the returned HashMap is re-created until its iteration order is ascending/descending by key, only to make runs reproducible; the oracle does not use that order");

    let f1_open = ctx.open(F1);
    let n = ctx.tier.pick(300_000u32, 8_000_000u32);

    // regression witnesses
    let fresh_enable = |ty: usize, on: bool, mode: Mode| History { mode, max_batch: 1000, ops: vec![Op::EnableType { ty, on }, Op::Load { ty, keys: vec![1], one: true, fail: false, omit: 0, desc: false }] };
    let promote = History {
        mode: Mode::Lru(2),
        max_batch: 1000,
        ops: vec![
            Op::Feed { ty: 0, pairs: vec![(0, 500_000), (1, 500_001)], one: false },
            Op::Load { ty: 0, keys: vec![0], one: true, fail: false, omit: 0, desc: false },
            Op::Feed { ty: 0, pairs: vec![(2, 500_020)], one: true },
            Op::Cached { ty: 0 },
            Op::Load { ty: 0, keys: vec![0, 1, 2], one: false, fail: false, omit: 0, desc: false },
            Op::Cached { ty: 0 },
        ],
    };
    let explicit = vec![
        ("enable_cache(true) first, HashMapCache", fresh_enable(0, true, Mode::Hash)),
        ("enable_cache(false) first, NoCache", fresh_enable(0, false, Mode::No)),
        ("enable_cache(false) first, second key type, LruCache(2)", fresh_enable(1, false, Mode::Lru(2))),
        ("LRU recency: hit protects from eviction", promote),
    ];
    for (name, h) in explicit {
        let c = run_history(&h, f1_open);
        if ctx.check_case("witness", c, json!({ "witness": name })) {
            return;
        }
    }

    if f1_open {
        // the construct of the open finding, kept out of the main search below
        let probes = ctx.tier.pick(2_000, 20_000);
        ctx.stream("f1-probe", probes, 96, |s| {
            let (h, _) = gen_history(s, 12, true);
            run_history(&h, true)
        });
    }

    let replaced = Cell::new(0u64);
    ctx.stream("histories", n, 400, |s| {
        let (h, r) = gen_history(s, 40, !f1_open);
        replaced.set(replaced.get() + r);
        run_history(&h, f1_open)
    });
    if f1_open {
        for _ in 0..replaced.get() {
            ctx.excluded(F1);
        }
    }

    ctx.floor("load-served-from-cache", 30_000);
    ctx.floor("load-partly-from-cache", 20_000);
    ctx.floor("lru-eviction", 30_000);
    ctx.floor("lru-insertion-order-ambiguous", 20_000);
    ctx.floor("load-with-caching-disabled", 20_000);
    ctx.floor("second-key-type", 20_000);
    ctx.floor("NoCache", 10_000);
    ctx.floor("HashMapCache", 10_000);
    if !f1_open {
        ctx.floor("enable_cache-before-first-use", 5_000);
    }
}
