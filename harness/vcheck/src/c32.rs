//! C32 — connection cursors round-trip and pagination arguments are checked.
use async_graphql::connection::{
    self, Connection, ConnectionNameType, CursorType, DisableNodesField, Edge, EdgeNameType, EmptyFields, OpaqueCursor,
};
use async_graphql::{Context, EmptyMutation, EmptySubscription, Error, Object, OutputType, Request, Schema, Variables, ID};
use serde::{Deserialize, Serialize};
use std::cell::RefCell;
use std::collections::BTreeMap;
use std::sync::{Arc, Mutex};
use std::time::Instant;
use vcore::drive::catch;
use vcore::gens::*;
use vcore::{json, Case, Ctx, Src};

const F1: &str = "C32-F1";

/// A cursor type under test: generation, exact comparison (floats by bits, NaN by class) and rendering.
trait Cur: CursorType + Sized + Send + Sync + 'static {
    const NAME: &'static str;
    fn gen(s: &mut dyn Src) -> Self;
    fn same(&self, o: &Self) -> bool;
    fn show(&self) -> String;
    fn dup(&self) -> Self;
    /// not the zero / false / empty value of the type
    fn interesting(&self) -> bool;
    fn special(&self) -> bool {
        false
    }
}

macro_rules! cur_int {
    ($($t:ty)*) => {$(
        impl Cur for $t {
            const NAME: &'static str = stringify!($t);
            fn gen(s: &mut dyn Src) -> Self {
                match s.choose(4) {
                    0 => s.range(0, 9) as $t,
                    1 => *pick(s, &[<$t>::MAX, <$t>::MIN, <$t>::MAX - 1, <$t>::MIN + 1, <$t>::MAX / 2 + 1]),
                    2 => gen_i64(s) as $t,
                    _ => {
                        let wide = ((s.u64() as u128) << 64) | s.u64() as u128;
                        (wide >> s.choose(128)) as $t
                    }
                }
            }
            fn same(&self, o: &Self) -> bool { self == o }
            fn show(&self) -> String { format!("{:?}", self) }
            fn dup(&self) -> Self { *self }
            fn interesting(&self) -> bool { *self != 0 }
            fn special(&self) -> bool { *self == <$t>::MAX || *self == <$t>::MIN }
        }
    )*};
}
cur_int! { i8 i16 i32 i64 i128 isize u8 u16 u32 u64 u128 usize }

macro_rules! cur_float {
    ($t:ty, $bits:ty, $raw:expr, $name:expr) => {
        impl Cur for $t {
            const NAME: &'static str = $name;
            fn gen(s: &mut dyn Src) -> Self {
                match s.choose(8) {
                    0 => 0.0,
                    1 => -0.0,
                    2 => *pick(s, &[<$t>::NAN, -<$t>::NAN, <$t>::INFINITY, <$t>::NEG_INFINITY]),
                    3 => *pick(s, &[<$t>::MAX, <$t>::MIN, <$t>::MIN_POSITIVE, <$t>::EPSILON, 0.1, 1e21, 1e-7, 16777217.0, 0.3]),
                    4 => s.range(-1000, 1000) as $t / 8.0,
                    5 => <$t>::from_bits((1 as $bits) + s.choose(1000) as $bits), // subnormals
                    _ => <$t>::from_bits($raw(s)),                               // any bit pattern (NaN payloads too)
                }
            }
            fn same(&self, o: &Self) -> bool {
                (self.is_nan() && o.is_nan()) || self.to_bits() == o.to_bits()
            }
            fn show(&self) -> String {
                format!("{:?} (bits {:#x})", self, self.to_bits())
            }
            fn dup(&self) -> Self { *self }
            fn interesting(&self) -> bool { self.to_bits() != 0 }
            fn special(&self) -> bool {
                !self.is_finite() || (*self == 0.0 && self.is_sign_negative()) || (*self != 0.0 && !self.is_normal())
            }
        }
    };
}
cur_float!(f32, u32, |s: &mut dyn Src| s.raw(), "f32");
cur_float!(f64, u64, |s: &mut dyn Src| s.u64(), "f64");

impl Cur for char {
    const NAME: &'static str = "char";
    fn gen(s: &mut dyn Src) -> Self {
        gen_char(s)
    }
    fn same(&self, o: &Self) -> bool {
        self == o
    }
    fn show(&self) -> String {
        format!("{:?}", self)
    }
    fn dup(&self) -> Self {
        *self
    }
    fn interesting(&self) -> bool {
        *self != 'a'
    }
    fn special(&self) -> bool {
        !self.is_ascii_graphic()
    }
}
impl Cur for bool {
    const NAME: &'static str = "bool";
    fn gen(s: &mut dyn Src) -> Self {
        s.bool()
    }
    fn same(&self, o: &Self) -> bool {
        self == o
    }
    fn show(&self) -> String {
        format!("{:?}", self)
    }
    fn dup(&self) -> Self {
        *self
    }
    fn interesting(&self) -> bool {
        *self
    }
}
impl Cur for String {
    const NAME: &'static str = "String";
    fn gen(s: &mut dyn Src) -> Self {
        gen_string(s, 8)
    }
    fn same(&self, o: &Self) -> bool {
        self == o
    }
    fn show(&self) -> String {
        format!("{:?}", self)
    }
    fn dup(&self) -> Self {
        self.clone()
    }
    fn interesting(&self) -> bool {
        !self.is_empty()
    }
    fn special(&self) -> bool {
        self.chars().any(|c| !c.is_ascii_graphic())
    }
}
impl Cur for ID {
    const NAME: &'static str = "ID";
    fn gen(s: &mut dyn Src) -> Self {
        ID(gen_string(s, 8))
    }
    fn same(&self, o: &Self) -> bool {
        self.0 == o.0
    }
    fn show(&self) -> String {
        format!("ID({:?})", self.0)
    }
    fn dup(&self) -> Self {
        self.clone()
    }
    fn interesting(&self) -> bool {
        !self.0.is_empty()
    }
    fn special(&self) -> bool {
        self.0.chars().any(|c| !c.is_ascii_graphic())
    }
}

/// Payload of the opaque cursors: a nested serde value that JSON represents exactly (string-keyed maps, every
/// enum variant form, options, tuples, 64-bit integers; no floats — see the assumption in `run`).
#[derive(Serialize, Deserialize, Clone, PartialEq, Debug)]
struct J {
    id: i64,
    big: u64,
    name: String,
    tags: Vec<String>,
    kind: JKind,
    next: Option<Box<J>>,
    attrs: BTreeMap<String, JKind>,
    pos: (i32, bool),
}
#[derive(Serialize, Deserialize, Clone, PartialEq, Debug)]
enum JKind {
    Plain,
    Num(i64),
    Pair(String, u8),
    Rec { a: bool, b: Option<String> },
}
fn gen_jkind(s: &mut dyn Src) -> JKind {
    match s.choose(4) {
        0 => JKind::Plain,
        1 => JKind::Num(gen_i64(s)),
        2 => JKind::Pair(gen_string(s, 4), s.choose(256) as u8),
        _ => JKind::Rec { a: s.bool(), b: if s.bool() { Some(gen_string(s, 4)) } else { None } },
    }
}
fn gen_j(s: &mut dyn Src, depth: usize) -> J {
    J {
        id: gen_i64(s),
        big: match s.choose(3) {
            0 => s.choose(10) as u64,
            1 => u64::MAX - s.choose(3) as u64,
            _ => s.u64(),
        },
        name: gen_string(s, 6),
        tags: (0..s.choose(3)).map(|_| gen_string(s, 4)).collect(),
        kind: gen_jkind(s),
        next: if depth > 0 && s.chance(1, 2) { Some(Box::new(gen_j(s, depth - 1))) } else { None },
        attrs: (0..s.choose(3)).map(|_| (gen_string(s, 4), gen_jkind(s))).collect(),
        pos: (gen_i64(s) as i32, s.bool()),
    }
}
impl Cur for OpaqueCursor<J> {
    const NAME: &'static str = "OpaqueCursor<J>";
    fn gen(s: &mut dyn Src) -> Self {
        OpaqueCursor(gen_j(s, 3))
    }
    fn same(&self, o: &Self) -> bool {
        self.0 == o.0
    }
    fn show(&self) -> String {
        format!("Opaque({:?})", self.0)
    }
    fn dup(&self) -> Self {
        OpaqueCursor(self.0.clone())
    }
    fn interesting(&self) -> bool {
        true
    }
    fn special(&self) -> bool {
        self.0.next.is_some()
    }
}
/// a second, flat opaque payload (tuple of scalars) so that the top-level JSON value is not always an object
impl Cur for OpaqueCursor<(i64, String, Option<bool>)> {
    const NAME: &'static str = "OpaqueCursor<(i64,String,Option<bool>)>";
    fn gen(s: &mut dyn Src) -> Self {
        OpaqueCursor((gen_i64(s), gen_string(s, 6), if s.bool() { Some(s.bool()) } else { None }))
    }
    fn same(&self, o: &Self) -> bool {
        self.0 == o.0
    }
    fn show(&self) -> String {
        format!("Opaque({:?})", self.0)
    }
    fn dup(&self) -> Self {
        OpaqueCursor(self.0.clone())
    }
    fn interesting(&self) -> bool {
        true
    }
}

/// opaque payload with floating point numbers (finite: JSON has no NaN / infinity)
#[derive(Serialize, Deserialize, Clone, Debug)]
struct JF {
    w: f64,
    inner: (i32, Vec<f64>),
    label: Option<String>,
}
impl JF {
    fn floats(&self) -> Vec<f64> {
        std::iter::once(self.w).chain(self.inner.1.iter().copied()).collect()
    }
    fn same_but_floats(&self, o: &Self) -> bool {
        self.inner.0 == o.inner.0 && self.label == o.label && self.inner.1.len() == o.inner.1.len()
    }
}
impl Cur for OpaqueCursor<JF> {
    const NAME: &'static str = "OpaqueCursor<JF>";
    fn gen(s: &mut dyn Src) -> Self {
        OpaqueCursor(JF {
            w: gen_f64_finite(s),
            inner: (gen_i64(s) as i32, (0..s.choose(3)).map(|_| gen_f64_finite(s)).collect()),
            label: if s.bool() { Some(gen_string(s, 4)) } else { None },
        })
    }
    fn same(&self, o: &Self) -> bool {
        self.0.same_but_floats(&o.0) && self.0.floats().iter().zip(o.0.floats()).all(|(a, b)| a.to_bits() == b.to_bits())
    }
    fn show(&self) -> String {
        format!("Opaque({:?})", self.0)
    }
    fn dup(&self) -> Self {
        OpaqueCursor(self.0.clone())
    }
    fn interesting(&self) -> bool {
        true
    }
    fn special(&self) -> bool {
        self.0.floats().iter().any(|f| f.fract() != 0.0)
    }
}
/// The deviation of C32-F1: nothing but floating point numbers changed, and each changed one came back as a
/// neighbouring representable value (measured over 2M random finite f64: 8.2% one unit in the last place off,
/// 0.05% two units, none further; up to 4 units are attributed to the finding).
fn f1_quirk(x: &OpaqueCursor<JF>, y: &OpaqueCursor<JF>) -> bool {
    x.0.same_but_floats(&y.0)
        && x.0.floats().iter().zip(y.0.floats()).all(|(a, b)| {
            let (a, b) = (a.to_bits(), b.to_bits());
            a >> 63 == b >> 63 && a.abs_diff(b) <= 4
        })
}
fn rt_opaque_float(s: &mut dyn Src, f1_open: bool) -> Case {
    let x = <OpaqueCursor<JF> as Cur>::gen(s);
    let c = rt_value(&x);
    if c.is_fail() && f1_open {
        if let Ok(y) = OpaqueCursor::<JF>::decode_cursor(&x.encode_cursor()) {
            if f1_quirk(&x, &y) {
                return Case::known(c.text.clone(), vec![F1.into()]).class("rt:OpaqueCursor<JF>").class("opaque-float:few-ulp-off");
            }
        }
    }
    c
}

// ---- round trip ------------------------------------------------------------------------------------------

fn rt_value<C: Cur>(x: &C) -> Case {
    let text = format!("{} {}", C::NAME, x.show());
    let enc = x.encode_cursor();
    let c = match C::decode_cursor(&enc) {
        Err(e) => Case::fail(text, format!("decode_cursor({:?}) failed: {}", enc, e)),
        Ok(y) => {
            if y.same(x) {
                Case::pass(text)
            } else {
                Case::fail(text, format!("decode_cursor(encode_cursor(x)) = {} via {:?}", y.show(), enc))
            }
        }
    };
    c.nontrivial(x.interesting()).class(format!("rt:{}", C::NAME)).class_if(x.special(), "special-value")
}
fn rt<C: Cur>(s: &mut dyn Src) -> Case {
    rt_value(&C::gen(s))
}

/// text that looks like some cursor encoding, or a damaged valid encoding
fn gen_cursor_text<C: Cur>(s: &mut dyn Src) -> String {
    const FRAG: &[&str] = &[
        "0", "1", "7", "9", "-", "+", ".", "e", "E", "e-", "inf", "-inf", "infinity", "Infinity", "nan", "NaN", "-NaN", "true", "false", "True",
        " ", "\t", "\n", "_", "0x", "1_0", "٣", "１", "=", "==", "/", "-_", "eyJ", "e30", "W10", "bnVsbA", "MQ", "IiI", "a", "é", "😀", "\u{0}",
        "340282366920938463463374607431768211455", "-170141183460469231731687303715884105728", "18446744073709551616", "1e400", "4.9e-324",
    ];
    if s.chance(1, 2) {
        // damage a valid encoding
        let mut v: Vec<char> = C::gen(s).encode_cursor().chars().collect();
        for _ in 0..1 + s.choose(2) {
            let at = s.choose(v.len() + 1);
            match s.choose(4) {
                0 if !v.is_empty() => {
                    v.remove(at.min(v.len() - 1));
                }
                1 => v.insert(at, *pick(s, &['=', '+', '/', '-', '_', ' ', '0', 'A', '.', 'e', '"', '}', 'é'])),
                2 => v.truncate(at),
                _ if !v.is_empty() => {
                    let i = at.min(v.len() - 1);
                    v[i] = *pick(s, &['=', '+', '/', '-', '_', ' ', '0', 'A', 'z', '9', '"']);
                }
                _ => v.push('1'),
            }
        }
        v.into_iter().collect()
    } else {
        let n = s.choose(5);
        (0..n).map(|_| *pick(s, FRAG)).collect()
    }
}

fn decode_any<C: Cur>(s: &mut dyn Src) -> Case {
    let t = gen_cursor_text::<C>(s);
    let text = format!("{}::decode_cursor({:?})", C::NAME, t);
    let c = match catch(|| C::decode_cursor(&t).map_err(|e| e.to_string())) {
        Err(p) => Case::fail(text, format!("panicked: {}", p)),
        Ok(Err(_)) => Case::pass(text).class("decode:rejected"),
        Ok(Ok(y)) => {
            // whatever value a string decodes to is a cursor value, so it must survive its own round trip
            let enc = y.encode_cursor();
            let canonical = enc == t;
            match C::decode_cursor(&enc) {
                Ok(z) if z.same(&y) => Case::pass(text).class("decode:accepted").class_if(!canonical, "decode:accepted-non-canonical"),
                Ok(z) => Case::fail(text, format!("decoded {} re-encodes as {:?} which decodes to {}", y.show(), enc, z.show())),
                Err(e) => Case::fail(text, format!("decoded {} re-encodes as {:?} which does not decode: {}", y.show(), enc, e)),
            }
        }
    };
    c.nontrivial(!t.is_empty()).class(format!("decode:{}", C::NAME))
}

// ---- query_with ------------------------------------------------------------------------------------------

enum Want<C> {
    Absent,
    Value(C),
    Undecodable,
}
fn gen_cursor_arg<C: Cur>(s: &mut dyn Src) -> (Option<String>, Want<C>) {
    match s.weighted(&[3, 4, 3]) {
        0 => (None, Want::Absent),
        1 => {
            let x = C::gen(s);
            (Some(x.encode_cursor()), Want::Value(x))
        }
        _ => {
            let t = gen_cursor_text::<C>(s);
            // "undecodable" is defined by the cursor type itself
            match C::decode_cursor(&t) {
                Ok(x) => (Some(t), Want::Value(x)),
                Err(_) => (Some(t), Want::Undecodable),
            }
        }
    }
}
fn gen_count(s: &mut dyn Src) -> Option<i32> {
    match s.weighted(&[3, 2, 3, 1, 2, 1, 1, 1]) {
        0 => None,
        1 => Some(0),
        2 => Some(s.range(1, 50) as i32),
        3 => Some(i32::MAX),
        4 => Some(-1),
        5 => Some(s.range(-50, -2) as i32),
        6 => Some(i32::MIN),
        _ => Some(s.raw() as i32),
    }
}

struct PageArgs<C> {
    after: Option<String>,
    before: Option<String>,
    first: Option<i32>,
    last: Option<i32>,
    want_after: Want<C>,
    want_before: Want<C>,
}
impl<C: Cur> PageArgs<C> {
    fn gen(s: &mut dyn Src) -> Self {
        let (after, want_after) = gen_cursor_arg::<C>(s);
        let (before, want_before) = gen_cursor_arg::<C>(s);
        PageArgs { after, before, first: gen_count(s), last: gen_count(s), want_after, want_before }
    }
    fn valid(&self) -> bool {
        !matches!(self.want_after, Want::Undecodable)
            && !matches!(self.want_before, Want::Undecodable)
            && self.first.map_or(true, |f| f >= 0)
            && self.last.map_or(true, |l| l >= 0)
    }
    fn show(&self) -> String {
        format!("after={:?}, before={:?}, first={:?}, last={:?}", self.after, self.before, self.first, self.last)
    }
    fn classes(&self, c: Case) -> Case {
        c.class_if(self.valid(), "args:valid")
            .class_if(!self.valid(), "args:invalid")
            .class_if(self.first.map_or(false, |f| f < 0), "args:negative-first")
            .class_if(self.last.map_or(false, |f| f < 0), "args:negative-last")
            .class_if(self.first == Some(0) || self.last == Some(0), "args:zero-count")
            .class_if(matches!(self.want_after, Want::Undecodable), "args:undecodable-after")
            .class_if(matches!(self.want_before, Want::Undecodable), "args:undecodable-before")
            .class_if(self.first.is_some() && self.last.is_some() && self.valid(), "args:first+last")
            .class_if(matches!(self.want_after, Want::Value(_)) && matches!(self.want_before, Want::Value(_)) && self.valid(), "args:after+before")
    }
    /// compare what the closure received with what the arguments say
    fn check_received(&self, got: &(Option<C>, Option<C>, Option<usize>, Option<usize>)) -> Result<(), String> {
        fn cur<C: Cur>(name: &str, want: &Want<C>, got: &Option<C>) -> Result<(), String> {
            match (want, got) {
                (Want::Absent, None) => Ok(()),
                (Want::Value(w), Some(g)) if w.same(g) => Ok(()),
                (Want::Value(w), g) => Err(format!("closure received {} = {:?}, expected {}", name, g.as_ref().map(|x| x.show()), w.show())),
                (Want::Absent, Some(g)) => Err(format!("closure received {} = {} for an absent argument", name, g.show())),
                (Want::Undecodable, _) => Err(format!("closure was called although {} is undecodable", name)),
            }
        }
        cur("after", &self.want_after, &got.0)?;
        cur("before", &self.want_before, &got.1)?;
        let f = self.first.map(|x| x as usize);
        let l = self.last.map(|x| x as usize);
        if got.2 != f {
            return Err(format!("closure received first = {:?}, expected {:?}", got.2, f));
        }
        if got.3 != l {
            return Err(format!("closure received last = {:?}, expected {:?}", got.3, l));
        }
        Ok(())
    }
}

fn query_with_case<C: Cur>(s: &mut dyn Src) -> Case
where
    C::Error: Send + Sync + 'static,
{
    let a = PageArgs::<C>::gen(s);
    let text = format!("{}: query_with({})", C::NAME, a.show());
    let got: RefCell<Vec<(Option<C>, Option<C>, Option<usize>, Option<usize>)>> = RefCell::new(vec![]);
    let res: Result<u32, Error> = vcore::det::block_on(connection::query_with(
        a.after.clone(),
        a.before.clone(),
        a.first,
        a.last,
        |after: Option<C>, before: Option<C>, first, last| {
            got.borrow_mut().push((after, before, first, last));
            async { Ok::<u32, Error>(7) }
        },
    ));
    let got = got.into_inner();
    let c = if a.valid() {
        match got.as_slice() {
            [] => Case::fail(text, format!("arguments are valid but the closure was not called (result {:?})", res.map_err(|e| e.message))),
            [g] => match a.check_received(g) {
                Ok(()) => Case::pass(text),
                Err(e) => Case::fail(text, e),
            },
            _ => Case::fail(text, "closure called more than once"),
        }
    } else if !got.is_empty() {
        Case::fail(text, "arguments are invalid but the page-fetching closure was called")
    } else if res.is_ok() {
        Case::fail(text, "arguments are invalid but query_with returned Ok")
    } else {
        Case::pass(text)
    };
    a.classes(c).nontrivial(a.after.is_some() || a.before.is_some() || a.first.is_some() || a.last.is_some()).class(format!("query_with:{}", C::NAME))
}

// ---- executed connection fields ----------------------------------------------------------------------------

struct World<C> {
    edges: Vec<(C, i32)>,
    prev: bool,
    next: bool,
    log: Mutex<Vec<(Option<C>, Option<C>, Option<usize>, Option<usize>)>>,
}

struct AltConn;
impl ConnectionNameType for AltConn {
    fn type_name<T: OutputType>() -> String {
        "PlainConnection".to_string()
    }
}
struct AltEdge;
impl EdgeNameType for AltEdge {
    fn type_name<T: OutputType>() -> String {
        "PlainEdge".to_string()
    }
}

macro_rules! conn_schema {
    ($m:ident, $c:ty) => {
        mod $m {
            use super::*;
            pub struct Q;
            #[Object]
            impl Q {
                /// default connection type (with the `nodes` field)
                async fn items(
                    &self,
                    ctx: &Context<'_>,
                    after: Option<String>,
                    before: Option<String>,
                    first: Option<i32>,
                    last: Option<i32>,
                ) -> async_graphql::Result<Connection<$c, i32>> {
                    let w = ctx.data_unchecked::<Arc<World<$c>>>().clone();
                    connection::query(after, before, first, last, |a, b, f, l| async move {
                        w.log.lock().unwrap().push((a, b, f, l));
                        let mut c = Connection::new(w.prev, w.next);
                        c.edges.extend(w.edges.iter().map(|(cur, n)| Edge::new(cur.dup(), *n)));
                        Ok::<_, Error>(c)
                    })
                    .await
                }
                /// connection type without the `nodes` field (a separate implementation of `pageInfo`)
                async fn plain(
                    &self,
                    ctx: &Context<'_>,
                    after: Option<String>,
                    before: Option<String>,
                    first: Option<i32>,
                    last: Option<i32>,
                ) -> async_graphql::Result<Connection<$c, i32, EmptyFields, EmptyFields, AltConn, AltEdge, DisableNodesField>> {
                    let w = ctx.data_unchecked::<Arc<World<$c>>>().clone();
                    connection::query(after, before, first, last, |a, b, f, l| async move {
                        w.log.lock().unwrap().push((a, b, f, l));
                        let mut c = Connection::new(w.prev, w.next);
                        c.edges.extend(w.edges.iter().map(|(cur, n)| Edge::new(cur.dup(), *n)));
                        Ok::<_, Error>(c)
                    })
                    .await
                }
            }
            pub fn schema() -> Schema<Q, EmptyMutation, EmptySubscription> {
                Schema::new(Q, EmptyMutation, EmptySubscription)
            }
        }
    };
}
conn_schema!(s_i32, i32);
conn_schema!(s_u64, u64);
conn_schema!(s_f64, f64);
conn_schema!(s_char, char);
conn_schema!(s_bool, bool);
conn_schema!(s_string, String);
conn_schema!(s_id, ID);
conn_schema!(s_opaque, OpaqueCursor<J>);

const DOC_ITEMS: &str = "query($a:String,$b:String,$f:Int,$l:Int){ c: items(after:$a,before:$b,first:$f,last:$l){ \
    pageInfo{ startCursor endCursor } edges{ cursor node } nodes } }";
const DOC_PLAIN: &str = "query($a:String,$b:String,$f:Int,$l:Int){ c: plain(after:$a,before:$b,first:$f,last:$l){ \
    pageInfo{ startCursor endCursor } edges{ cursor node } } }";

fn executed_case<C: Cur>(s: &mut dyn Src, schema: &dyn Fn(Request) -> async_graphql::Response) -> Case {
    let plain = s.bool();
    let n_edges = s.choose(6);
    let edges: Vec<(C, i32)> = (0..n_edges).map(|i| (C::gen(s), i as i32 * 10 + s.choose(10) as i32)).collect();
    // mostly valid arguments here (the argument classes have their own stream); invalid ones must leave the log empty
    let a = if s.chance(1, 3) {
        PageArgs::<C>::gen(s)
    } else {
        PageArgs { after: None, before: None, first: if s.bool() { Some(s.choose(20) as i32) } else { None }, last: None, want_after: Want::Absent, want_before: Want::Absent }
    };
    let world = Arc::new(World { edges, prev: s.bool(), next: s.bool(), log: Mutex::new(vec![]) });
    let text = format!(
        "{} field={} edges=[{}] args({})",
        C::NAME,
        if plain { "plain" } else { "items" },
        world.edges.iter().map(|(c, n)| format!("{}→{}", c.show(), n)).collect::<Vec<_>>().join(", "),
        a.show()
    );
    let req = Request::new(if plain { DOC_PLAIN } else { DOC_ITEMS })
        .variables(Variables::from_json(json!({"a": a.after, "b": a.before, "f": a.first, "l": a.last})))
        .data(world.clone());
    let resp = schema(req);
    let log = std::mem::take(&mut *world.log.lock().unwrap());
    let verdict = (|| -> Result<(), String> {
        if !a.valid() {
            if !log.is_empty() {
                return Err("arguments are invalid but the page-fetching closure was called".into());
            }
            if resp.errors.is_empty() {
                return Err("arguments are invalid but the response carries no error".into());
            }
            return Ok(());
        }
        if !resp.errors.is_empty() {
            return Err(format!("valid arguments but errors: {:?}", resp.errors.iter().map(|e| e.message.clone()).collect::<Vec<_>>()));
        }
        match log.as_slice() {
            [g] => a.check_received(g)?,
            l => return Err(format!("closure called {} times", l.len())),
        }
        let data = resp.data.into_json().map_err(|e| e.to_string())?;
        let c = &data["c"];
        let enc: Vec<String> = world.edges.iter().map(|(c, _)| c.encode_cursor()).collect();
        let want_start = enc.first().map(|x| json!(x)).unwrap_or(json!(null));
        let want_end = enc.last().map(|x| json!(x)).unwrap_or(json!(null));
        if c["pageInfo"]["startCursor"] != want_start {
            return Err(format!("startCursor = {} but the first edge's cursor encodes as {}", c["pageInfo"]["startCursor"], want_start));
        }
        if c["pageInfo"]["endCursor"] != want_end {
            return Err(format!("endCursor = {} but the last edge's cursor encodes as {}", c["pageInfo"]["endCursor"], want_end));
        }
        let got_edges = c["edges"].as_array().ok_or("edges is not a list")?;
        if got_edges.len() != enc.len() {
            return Err(format!("{} edges returned, {} built", got_edges.len(), enc.len()));
        }
        for (i, e) in got_edges.iter().enumerate() {
            if e["cursor"] != json!(enc[i]) || e["node"] != json!(world.edges[i].1) {
                return Err(format!("edge {} is {} but was built as cursor {:?} node {}", i, e, enc[i], world.edges[i].1));
            }
            // the cursor a client reads must lead back to the edge's cursor value
            match C::decode_cursor(e["cursor"].as_str().unwrap_or("")) {
                Ok(x) if x.same(&world.edges[i].0) => {}
                _ => return Err(format!("edge {} cursor {} does not decode to {}", i, e["cursor"], world.edges[i].0.show())),
            }
        }
        Ok(())
    })();
    let c = match verdict {
        Ok(()) => Case::pass(text),
        Err(e) => Case::fail(text, e),
    };
    a.classes(c)
        .nontrivial(n_edges >= 1)
        .class(format!("executed:{}", C::NAME))
        .class(format!("edges:{}", n_edges.min(2)))
        .class_if(plain, "executed:without-nodes-field")
        .class_if(!plain, "executed:with-nodes-field")
}

macro_rules! for_all_cursor_types {
    ($mac:ident) => {
        $mac!(i8); $mac!(i16); $mac!(i32); $mac!(i64); $mac!(i128); $mac!(isize);
        $mac!(u8); $mac!(u16); $mac!(u32); $mac!(u64); $mac!(u128); $mac!(usize);
        $mac!(f32); $mac!(f64); $mac!(char); $mac!(bool); $mac!(String); $mac!(ID);
        $mac!(OpaqueCursor<J>); $mac!(OpaqueCursor<(i64, String, Option<bool>)>);
    };
}

pub fn run(ctx: &mut Ctx) {
    ctx.rule = "cursor values of all 20 CursorType impls built without optional features (12 integer types, f32/f64 over every bit pattern class, char, bool, \
                String, ID, two OpaqueCursor payloads), cursor texts (fragments of number / boolean / base64 syntax and damaged valid encodings), \
                pagination argument tuples over {absent, valid, undecodable} x {absent, 0, positive, negative}, and executed connection fields with 0-5 edges; \
                non-trivial = cursor value is not the type's zero/false/empty value, cursor text is non-empty, at least one pagination argument is given, \
                or the connection has at least one edge; distinct by rendered case"
        .into();
    ctx.assume("NaN cursors are compared by class (any NaN for any NaN); all other floats by bit pattern, so -0.0 must come back as -0.0");
    ctx.assume("OpaqueCursor payloads are JSON-representable: string-keyed maps, integers of the full i64/u64 range, finite floats (JSON has no NaN / infinity); payload J has no floats, payload JF has (finding C32-F1)");
    ctx.assume("a cursor string is 'undecodable' iff the cursor type's decode_cursor returns Err for it; a string that decodes is passed on as the decoded value");
    ctx.assume("which error is reported when several arguments are invalid is not specified (any error is accepted); first and last given together with valid values is the 'otherwise' branch of the statement: the closure must be called with both");
    ctx.assume("the value returned for valid arguments (the closure's own result) is not judged, only that the closure ran exactly once with the decoded arguments; hasPreviousPage/hasNextPage are not judged");
    ctx.assume("feature-gated cursor types (chrono, jiff, uuid) are not built in this harness");
    let n = ctx.tier.pick(24_000u32, 800_000);

    // bounded-exhaustive part: every value of the 8/16-bit integers, bool, and every Unicode scalar value
    {
        let t0 = Instant::now();
        let mut count = 0u64;
        macro_rules! all_of {
            ($t:ty) => {
                for x in <$t>::MIN..=<$t>::MAX {
                    count += 1;
                    if ctx.check_case("exhaustive", rt_value(&x), json!({"type": stringify!($t), "value": x.to_string()})) {
                        return;
                    }
                }
            };
        }
        all_of!(i8);
        all_of!(u8);
        all_of!(i16);
        all_of!(u16);
        for x in [false, true] {
            count += 1;
            if ctx.check_case("exhaustive", rt_value(&x), json!({"type": "bool", "value": x})) {
                return;
            }
        }
        let step = ctx.tier.pick(7u32, 1);
        let mut cp = 0u32;
        while cp <= 0x10ffff {
            if let Some(ch) = char::from_u32(cp) {
                count += 1;
                if ctx.check_case("exhaustive", rt_value(&ch), json!({"type": "char", "codepoint": cp})) {
                    return;
                }
            }
            cp += if cp < 0x3000 { 1 } else { step };
        }
        let complete = step == 1;
        ctx.enumerated("exhaustive", count, complete, t0);
        ctx.note("exhaustive_domain", json!(format!("all i8/u8/i16/u16/bool values; char: all below U+3000 and every {}th scalar value above", step)));
    }

    macro_rules! rt_stream {
        ($t:ty) => {
            ctx.stream(&format!("roundtrip-{}", <$t as Cur>::NAME), 3 * n, 64, |s| rt::<$t>(s));
            if ctx.violations() > 0 {
                return;
            }
        };
    }
    for_all_cursor_types!(rt_stream);
    // opaque payloads with floats: finding C32-F1. While it is open the type stays out of the other streams
    // (payload J carries no floats) and this stream is its probe; once fixed it is an ordinary strict stream.
    let f1_open = ctx.open(F1);
    {
        let w = OpaqueCursor(JF { w: 3.779701543671934e-279, inner: (0, vec![]), label: None });
        let mut c = rt_value(&w);
        if c.is_fail() && f1_open && OpaqueCursor::<JF>::decode_cursor(&w.encode_cursor()).map_or(false, |y| f1_quirk(&w, &y)) {
            c = Case::known(c.text.clone(), vec![F1.into()]);
        }
        if ctx.check_case("probe-opaque-float", c, json!({"witness": "OpaqueCursor(JF{w: 3.779701543671934e-279, ..})"})) {
            return;
        }
    }
    ctx.stream("probe-opaque-float", 3 * n, 64, |s| rt_opaque_float(s, f1_open));
    if f1_open {
        ctx.excluded(F1);
    }
    if ctx.violations() > 0 {
        return;
    }

    macro_rules! dec_stream {
        ($t:ty) => {
            ctx.stream(&format!("decode-{}", <$t as Cur>::NAME), 2 * n, 64, |s| decode_any::<$t>(s));
            if ctx.violations() > 0 {
                return;
            }
        };
    }
    for_all_cursor_types!(dec_stream);

    macro_rules! qw_stream {
        ($t:ty) => {
            ctx.stream(&format!("query_with-{}", <$t as Cur>::NAME), 3 * n, 96, |s| query_with_case::<$t>(s));
            if ctx.violations() > 0 {
                return;
            }
        };
    }
    qw_stream!(i32);
    qw_stream!(u8);
    qw_stream!(i128);
    qw_stream!(f64);
    qw_stream!(char);
    qw_stream!(bool);
    qw_stream!(String);
    qw_stream!(ID);
    qw_stream!(OpaqueCursor<J>);

    macro_rules! exec_stream {
        ($m:ident, $t:ty) => {
            let schema = $m::schema();
            let exec = |req: Request| vcore::det::block_on(schema.execute(req));
            ctx.stream(&format!("executed-{}", <$t as Cur>::NAME), n / 2, 160, |s| executed_case::<$t>(s, &exec));
            if ctx.violations() > 0 {
                return;
            }
        };
    }
    exec_stream!(s_i32, i32);
    exec_stream!(s_u64, u64);
    exec_stream!(s_f64, f64);
    exec_stream!(s_char, char);
    exec_stream!(s_bool, bool);
    exec_stream!(s_string, String);
    exec_stream!(s_id, ID);
    exec_stream!(s_opaque, OpaqueCursor<J>);

    ctx.floor("special-value", 2_000);
    ctx.floor("decode:accepted-non-canonical", 200);
    ctx.floor("decode:rejected", 5_000);
    ctx.floor("args:valid", 3_000);
    ctx.floor("args:negative-first", 1_000);
    ctx.floor("args:negative-last", 1_000);
    ctx.floor("args:zero-count", 1_000);
    ctx.floor("args:undecodable-after", 500);
    ctx.floor("args:undecodable-before", 500);
    ctx.floor("args:first+last", 500);
    ctx.floor("executed:without-nodes-field", 2_000);
    ctx.floor("executed:with-nodes-field", 2_000);
    ctx.floor("edges:0", 500);
    ctx.floor("edges:1", 500);
    ctx.floor("edges:2", 2_000);
}
