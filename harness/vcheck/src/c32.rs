//! C32 — not built yet.
use vcore::Ctx;

pub fn run(_ctx: &mut Ctx) {
    eprintln!("C32: check not built yet");
    std::process::exit(2);
}
