pub mod dynbuild;
pub mod rt;
