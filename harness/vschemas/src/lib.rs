pub mod dynbuild;
pub mod rt;
pub mod z;
