//! Runtime shared by the harness's resolvers (static and dynamic): the data world, gates, the invocation log.
use std::sync::atomic::{AtomicBool, Ordering};
use std::sync::{Arc, Mutex};
use vcore::det::Gates;
use vgql::world::World;

#[derive(Clone, Debug, PartialEq)]
pub enum Ev {
    Start { path: String, node: usize, parent_type: String, field: String, args: String },
    Finish { path: String, node: usize, field: String },
}

#[derive(Clone)]
pub struct Rt {
    pub world: Arc<World>,
    pub gates: Gates,
    pub gated: Arc<AtomicBool>,
    pub log: Arc<Mutex<Vec<Ev>>>,
    pub logging: Arc<AtomicBool>,
    /// when set, only resolvers whose response path is in the set wait on a gate
    pub only: Arc<Mutex<Option<std::collections::HashSet<String>>>>,
}

impl Rt {
    pub fn new(world: World) -> Rt {
        Rt { world: Arc::new(world), gates: Gates::new(), gated: Arc::new(AtomicBool::new(false)), log: Arc::new(Mutex::new(vec![])), logging: Arc::new(AtomicBool::new(true)), only: Arc::new(Mutex::new(None)) }
    }
    pub fn set_gated(&self, g: bool) {
        self.gated.store(g, Ordering::SeqCst);
    }
    pub fn is_gated(&self) -> bool {
        self.gated.load(Ordering::SeqCst)
    }
    pub fn start(&self, path: &str, node: usize, parent_type: &str, field: &str, args: String) {
        if self.logging.load(Ordering::Relaxed) {
            self.log.lock().unwrap().push(Ev::Start { path: path.to_string(), node, parent_type: parent_type.to_string(), field: field.to_string(), args });
        }
    }
    pub fn finish(&self, path: &str, node: usize, field: &str) {
        if self.logging.load(Ordering::Relaxed) {
            self.log.lock().unwrap().push(Ev::Finish { path: path.to_string(), node, field: field.to_string() });
        }
    }
    pub fn gate_only(&self, paths: impl IntoIterator<Item = String>) {
        *self.only.lock().unwrap() = Some(paths.into_iter().collect());
    }
    pub fn take_log(&self) -> Vec<Ev> {
        std::mem::take(&mut *self.log.lock().unwrap())
    }
    /// wait on the gate named after the response path (passes straight through when not gated)
    pub async fn gate(&self, label: String) {
        let mut pass = !self.is_gated();
        if !pass {
            if let Some(set) = &*self.only.lock().unwrap() {
                pass = !set.contains(&label);
            }
        }
        self.gates.wait_or_pass(label, pass).await
    }
}
