//! `Sch` -> `async_graphql::dynamic::Schema` with data-driven, optionally gated, optionally failing, logging
//! resolvers reading a `World`.
use crate::rt::Rt;
use async_graphql::dynamic::*;
use async_graphql::{Name, Value};
use futures_util::stream;
use vgql::ast::{Ty, Val};
use vgql::sch::{Kind, Sch};
use vgql::world::{Fault, WVal, World};

pub struct NodeRef(pub usize);

pub fn type_ref(t: &Ty) -> TypeRef {
    match t {
        Ty::Named(n) => TypeRef::Named(n.clone().into()),
        Ty::List(i) => TypeRef::List(Box::new(type_ref(i))),
        Ty::NonNull(i) => TypeRef::NonNull(Box::new(type_ref(i))),
    }
}

pub fn val_to_value(v: &Val) -> Value {
    match v {
        Val::Var(n) => Value::String(format!("${}", n)),
        Val::Int(t) => t.parse::<i64>().map(Value::from).unwrap_or(Value::Null),
        Val::Float(t) => t.parse::<f64>().map(Value::from).unwrap_or(Value::Null),
        Val::Str(s) => Value::String(s.clone()),
        Val::Bool(b) => Value::Boolean(*b),
        Val::Null => Value::Null,
        Val::Enum(e) => Value::Enum(Name::new(e)),
        Val::List(l) => Value::List(l.iter().map(|x| val_to_value(&x.v)).collect()),
        Val::Obj(o) => Value::Object(o.iter().map(|(k, x)| (Name::new(&k.s), val_to_value(&x.v))).collect()),
    }
}

/// validator of the harness's custom scalars: integers 0..=9 are valid
pub fn custom_scalar_valid(v: &Value) -> bool {
    match v {
        Value::Number(n) => n.as_i64().map_or(false, |i| (0..=9).contains(&i)),
        _ => false,
    }
}

/// A (nested) list of leaf values as one plain `Value::List`; `None` when an object reference occurs in it.
fn plain_leaf_list(items: &[WVal], invalid: bool) -> Option<Value> {
    let mut out = Vec::with_capacity(items.len());
    for it in items {
        out.push(match it {
            WVal::Null => Value::Null,
            // the same invalid stand-ins as `wval_to_field_value` (fault kind InvalidValue)
            WVal::Int(_) if invalid => Value::from(-1i64),
            WVal::Enum(_) if invalid => Value::Enum(Name::new("NOT_A_VALUE")),
            WVal::Int(i) => Value::from(*i),
            WVal::Float(f) => Value::from(*f),
            WVal::Str(s) => Value::String(s.clone()),
            WVal::Bool(b) => Value::Boolean(*b),
            WVal::Enum(e) => Value::Enum(Name::new(e)),
            WVal::List(inner) => plain_leaf_list(inner, invalid)?,
            WVal::Ref(_) => return None,
        });
    }
    Some(Value::List(out))
}

fn wval_to_field_value(world: &World, sch: &Sch, ty: &Ty, v: &WVal, invalid: bool) -> Option<FieldValue<'static>> {
    match v {
        WVal::Null => None,
        WVal::Int(i) => {
            if invalid {
                // invalid for the harness's custom scalars (and not an enum name)
                return Some(FieldValue::value(Value::from(-1i64)));
            }
            Some(FieldValue::value(Value::from(*i)))
        }
        WVal::Float(f) => Some(FieldValue::value(Value::from(*f))),
        WVal::Str(s) => Some(FieldValue::value(Value::String(s.clone()))),
        WVal::Bool(b) => Some(FieldValue::value(Value::Boolean(*b))),
        WVal::Enum(e) => {
            if invalid {
                return Some(FieldValue::value(Value::Enum(Name::new("NOT_A_VALUE"))));
            }
            Some(FieldValue::value(Value::Enum(Name::new(e))))
        }
        WVal::List(items) => {
            let inner = match ty.nullable() {
                Ty::List(i) => (**i).clone(),
                t => t.clone(),
            };
            if world.plain_leaf_lists {
                if let Some(v) = plain_leaf_list(items, invalid) {
                    return Some(FieldValue::value(v));
                }
            }
            Some(FieldValue::list(items.iter().map(|it| wval_to_field_value(world, sch, &inner, it, invalid).unwrap_or(FieldValue::NULL))))
        }
        WVal::Ref(n) => {
            let fv = FieldValue::owned_any(NodeRef(*n));
            if sch.is_abstract(ty.base()) {
                Some(fv.with_type(world.nodes[*n].ty.clone()))
            } else {
                Some(fv)
            }
        }
    }
}

fn args_text(ctx: &ResolverContext<'_>) -> String {
    let mut parts = vec![];
    for (k, v) in ctx.args.iter() {
        parts.push(format!("{}:{}", k, v.as_value()));
    }
    parts.join(",")
}

fn make_field(sch: std::sync::Arc<Sch>, rt: Rt, parent_type: String, fd: vgql::sch::FieldDef, root_node: Option<usize>) -> Field {
    let fname = fd.name.clone();
    let fty = fd.ty.clone();
    let mut f = Field::new(fd.name.clone(), type_ref(&fd.ty), move |ctx: ResolverContext<'_>| {
        let rt = rt.clone();
        let sch = sch.clone();
        let fname = fname.clone();
        let fty = fty.clone();
        let parent_type = parent_type.clone();
        FieldFuture::new(async move {
            let node = match ctx.parent_value.downcast_ref::<NodeRef>() {
                Some(n) => n.0,
                None => root_node.ok_or_else(|| async_graphql::Error::new("harness: no parent node"))?,
            };
            let path = ctx.ctx.path_node.map(|p| p.to_string()).unwrap_or_default();
            rt.start(&path, node, &parent_type, &fname, args_text(&ctx));
            rt.gate(path.clone()).await;
            rt.finish(&path, node, &fname);
            let world = rt.world.clone();
            match world.fault(node, &fname) {
                Some(Fault::ResolverError) | Some(Fault::Guard) => return Err(async_graphql::Error::new(format!("fault at {}", path))),
                Some(Fault::NothingForNonNull) => return Ok(None),
                _ => {}
            }
            let invalid = world.fault(node, &fname) == Some(Fault::InvalidValue);
            let v = world.value(node, &fname).cloned().unwrap_or(WVal::Null);
            Ok(wval_to_field_value(&world, &sch, &fty, &v, invalid))
        })
    });
    for a in &fd.args {
        let mut iv = InputValue::new(a.name.clone(), type_ref(&a.ty));
        if let Some(d) = &a.default {
            iv = iv.default_value(val_to_value(d));
        }
        f = f.argument(iv);
    }
    if let Some(d) = &fd.desc {
        f = f.description(d.clone());
    }
    f
}

/// Build the dynamic schema. `configure` may set limits / extensions / introspection modes on the builder.
pub fn build_dynamic(sch: &Sch, rt: &Rt, configure: impl FnOnce(SchemaBuilder) -> SchemaBuilder) -> Result<Schema, SchemaError> {
    let arc = std::sync::Arc::new(sch.clone());
    let mut b = Schema::build(&sch.query, sch.mutation.as_deref(), sch.subscription.as_deref());
    let world = rt.world.clone();
    for td in sch.types.values() {
        match td.kind {
            Kind::Scalar => {
                if !vgql::sch::BUILTIN_SCALARS.contains(&td.name.as_str()) {
                    let mut s = Scalar::new(td.name.clone()).validator(custom_scalar_valid);
                    if let Some(d) = &td.desc {
                        s = s.description(d.clone());
                    }
                    b = b.register(s);
                }
            }
            Kind::Enum => {
                let mut e = Enum::new(td.name.clone());
                for v in &td.values {
                    let mut item = EnumItem::new(v.name.clone());
                    if let Some(d) = &v.desc {
                        item = item.description(d.clone());
                    }
                    if let Some(r) = &v.deprecated {
                        item = item.deprecation(r.as_deref());
                    }
                    e = e.item(item);
                }
                if let Some(d) = &td.desc {
                    e = e.description(d.clone());
                }
                b = b.register(e);
            }
            Kind::Input => {
                let mut io = InputObject::new(td.name.clone());
                for f in &td.input_fields {
                    let mut iv = InputValue::new(f.name.clone(), type_ref(&f.ty));
                    if let Some(d) = &f.default {
                        iv = iv.default_value(val_to_value(d));
                    }
                    if let Some(d) = &f.desc {
                        iv = iv.description(d.clone());
                    }
                    io = io.field(iv);
                }
                if td.one_of {
                    io = io.oneof();
                }
                if let Some(d) = &td.desc {
                    io = io.description(d.clone());
                }
                b = b.register(io);
            }
            Kind::Union => {
                let mut u = Union::new(td.name.clone());
                for m in &td.members {
                    u = u.possible_type(m.clone());
                }
                if let Some(d) = &td.desc {
                    u = u.description(d.clone());
                }
                b = b.register(u);
            }
            Kind::Interface => {
                let mut i = Interface::new(td.name.clone());
                for f in &td.fields {
                    let mut inf = InterfaceField::new(f.name.clone(), type_ref(&f.ty));
                    for a in &f.args {
                        let mut iv = InputValue::new(a.name.clone(), type_ref(&a.ty));
                        if let Some(d) = &a.default {
                            iv = iv.default_value(val_to_value(d));
                        }
                        inf = inf.argument(iv);
                    }
                    if let Some(d) = &f.desc {
                        inf = inf.description(d.clone());
                    }
                    i = i.field(inf);
                }
                for x in &td.interfaces {
                    i = i.implement(x.clone());
                }
                if let Some(d) = &td.desc {
                    i = i.description(d.clone());
                }
                b = b.register(i);
            }
            Kind::Object => {
                if Some(&td.name) == sch.subscription.as_ref() {
                    let mut sub = Subscription::new(td.name.clone());
                    for fd in &td.fields {
                        let rt2 = rt.clone();
                        let arc2 = arc.clone();
                        let fname = fd.name.clone();
                        let fty = fd.ty.clone();
                        let root = world.subscription_root.unwrap_or(0);
                        let mut sf = SubscriptionField::new(fd.name.clone(), type_ref(&fd.ty), move |_ctx: ResolverContext<'_>| {
                            let rt = rt2.clone();
                            let sch = arc2.clone();
                            let fname = fname.clone();
                            let fty = fty.clone();
                            SubscriptionFieldFuture::new(async move {
                                let world = rt.world.clone();
                                // the field's world value is the sequence of events (a list) or a single event
                                let v = world.value(root, &fname).cloned().unwrap_or(WVal::Null);
                                let (events, ety): (Vec<WVal>, Ty) = match (&v, fty.nullable()) {
                                    (WVal::List(items), Ty::List(inner)) => (items.clone(), (**inner).clone()),
                                    _ => (vec![v.clone()], fty.clone()),
                                };
                                let _ = ety;
                                let items: Vec<async_graphql::Result<FieldValue<'static>>> =
                                    events.iter().map(|e| Ok(wval_to_field_value(&world, &sch, &fty, e, false).unwrap_or(FieldValue::NULL))).collect();
                                Ok(stream::iter(items))
                            })
                        });
                        for a in &fd.args {
                            let mut iv = InputValue::new(a.name.clone(), type_ref(&a.ty));
                            if let Some(d) = &a.default {
                                iv = iv.default_value(val_to_value(d));
                            }
                            sf = sf.argument(iv);
                        }
                        sub = sub.field(sf);
                    }
                    b = b.register(sub);
                    continue;
                }
                let root_node = if td.name == sch.query {
                    Some(world.query_root)
                } else if Some(&td.name) == sch.mutation.as_ref() {
                    world.mutation_root
                } else {
                    None
                };
                let mut o = Object::new(td.name.clone());
                for fd in &td.fields {
                    o = o.field(make_field(arc.clone(), rt.clone(), td.name.clone(), fd.clone(), root_node));
                }
                for i in &td.interfaces {
                    o = o.implement(i.clone());
                }
                if let Some(d) = &td.desc {
                    o = o.description(d.clone());
                }
                b = b.register(o);
            }
        }
    }
    configure(b).finish()
}
