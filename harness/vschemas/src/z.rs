//! Static schema "Z" (derive-built) whose resolvers are driven by a data world: every object struct holds a node
//! index; every resolver logs, optionally waits on a gate, optionally fails (fault injection) and converts the
//! world value to its Rust return type.
use crate::rt::Rt;
use async_graphql::*;
use vgql::world::{Fault, WVal, World};

#[derive(Enum, Copy, Clone, Eq, PartialEq, Debug)]
pub enum Mood {
    Happy,
    #[graphql(name = "GRUMPY_CAT")]
    Grumpy,
    Sleepy,
}

pub trait FromW: Sized {
    fn from_w(v: &WVal, w: &World) -> Result<Self>;
}
fn bad<T>(what: &str, v: &WVal) -> Result<T> {
    Err(Error::new(format!("harness: world value {:?} is not {}", v, what)))
}
impl FromW for i32 {
    fn from_w(v: &WVal, _: &World) -> Result<Self> {
        match v {
            WVal::Int(i) => Ok(*i as i32),
            v => bad("an Int", v),
        }
    }
}
impl FromW for f64 {
    fn from_w(v: &WVal, _: &World) -> Result<Self> {
        match v {
            WVal::Float(f) => Ok(*f),
            WVal::Int(i) => Ok(*i as f64),
            v => bad("a Float", v),
        }
    }
}
impl FromW for String {
    fn from_w(v: &WVal, _: &World) -> Result<Self> {
        match v {
            WVal::Str(s) => Ok(s.clone()),
            v => bad("a String", v),
        }
    }
}
impl FromW for ID {
    fn from_w(v: &WVal, _: &World) -> Result<Self> {
        match v {
            WVal::Str(s) => Ok(ID(s.clone())),
            WVal::Int(i) => Ok(ID(i.to_string())),
            v => bad("an ID", v),
        }
    }
}
impl FromW for bool {
    fn from_w(v: &WVal, _: &World) -> Result<Self> {
        match v {
            WVal::Bool(b) => Ok(*b),
            v => bad("a Boolean", v),
        }
    }
}
impl FromW for Mood {
    fn from_w(v: &WVal, _: &World) -> Result<Self> {
        match v {
            WVal::Enum(e) => match e.as_str() {
                "HAPPY" => Ok(Mood::Happy),
                "GRUMPY_CAT" => Ok(Mood::Grumpy),
                "SLEEPY" => Ok(Mood::Sleepy),
                _ => bad("a Mood", v),
            },
            v => bad("a Mood", v),
        }
    }
}
impl<T: FromW> FromW for Option<T> {
    fn from_w(v: &WVal, w: &World) -> Result<Self> {
        match v {
            WVal::Null => Ok(None),
            v => T::from_w(v, w).map(Some),
        }
    }
}
impl<T: FromW> FromW for Vec<T> {
    fn from_w(v: &WVal, w: &World) -> Result<Self> {
        match v {
            WVal::List(l) => l.iter().map(|x| T::from_w(x, w)).collect(),
            v => bad("a list", v),
        }
    }
}

macro_rules! node_type {
    ($t:ident) => {
        pub struct $t(pub usize);
        impl FromW for $t {
            fn from_w(v: &WVal, w: &World) -> Result<Self> {
                match v {
                    WVal::Ref(n) if w.nodes[*n].ty == stringify!($t) => Ok($t(*n)),
                    v => bad(stringify!($t), v),
                }
            }
        }
    };
}
node_type!(Dog);
node_type!(Cat);
node_type!(Robot);
node_type!(Owner);

/// the common resolver body
pub async fn res<T: FromW>(ctx: &Context<'_>, node: usize, parent_type: &str, field: &str) -> Result<T> {
    let rt = ctx.data::<Rt>()?.clone();
    let path = ctx.path_node.map(|p| p.to_string()).unwrap_or_default();
    let args = ctx
        .field()
        .arguments()
        .map(|a| a.iter().map(|(k, v)| format!("{}:{}", k, v)).collect::<Vec<_>>().join(","))
        .unwrap_or_else(|_| "<args error>".to_string());
    rt.start(&path, node, parent_type, field, args);
    rt.gate(path.clone()).await;
    rt.finish(&path, node, field);
    let world = rt.world.clone();
    if let Some(Fault::ResolverError) = world.fault(node, field) {
        return Err(Error::new(format!("fault at {}", path)));
    }
    let v = world.value(node, field).cloned().unwrap_or(WVal::Null);
    T::from_w(&v, &world)
}

#[derive(Interface)]
#[graphql(field(name = "name", ty = "String"))]
pub enum Named {
    Dog(Dog),
    Cat(Cat),
    Robot(Robot),
    Owner(Owner),
}
impl FromW for Named {
    fn from_w(v: &WVal, w: &World) -> Result<Self> {
        match v {
            WVal::Ref(n) => match w.nodes[*n].ty.as_str() {
                "Dog" => Ok(Named::Dog(Dog(*n))),
                "Cat" => Ok(Named::Cat(Cat(*n))),
                "Robot" => Ok(Named::Robot(Robot(*n))),
                "Owner" => Ok(Named::Owner(Owner(*n))),
                _ => bad("a Named", v),
            },
            v => bad("a Named", v),
        }
    }
}

#[derive(Interface)]
#[graphql(
    field(name = "name", ty = "String"),
    field(name = "mood", ty = "Mood"),
    field(name = "friend", ty = "Option<Pet>"),
    field(name = "friends", ty = "Vec<Pet>"),
    field(name = "owner", ty = "Option<Owner>")
)]
pub enum Pet {
    Dog(Dog),
    Cat(Cat),
}
impl FromW for Pet {
    fn from_w(v: &WVal, w: &World) -> Result<Self> {
        match v {
            WVal::Ref(n) => match w.nodes[*n].ty.as_str() {
                "Dog" => Ok(Pet::Dog(Dog(*n))),
                "Cat" => Ok(Pet::Cat(Cat(*n))),
                _ => bad("a Pet", v),
            },
            v => bad("a Pet", v),
        }
    }
}

#[derive(Union)]
pub enum Animal {
    Dog(Dog),
    Cat(Cat),
}
impl FromW for Animal {
    fn from_w(v: &WVal, w: &World) -> Result<Self> {
        match v {
            WVal::Ref(n) => match w.nodes[*n].ty.as_str() {
                "Dog" => Ok(Animal::Dog(Dog(*n))),
                "Cat" => Ok(Animal::Cat(Cat(*n))),
                _ => bad("an Animal", v),
            },
            v => bad("an Animal", v),
        }
    }
}

#[derive(Union)]
pub enum Thing {
    Robot(Robot),
    Owner(Owner),
    Dog(Dog),
}
impl FromW for Thing {
    fn from_w(v: &WVal, w: &World) -> Result<Self> {
        match v {
            WVal::Ref(n) => match w.nodes[*n].ty.as_str() {
                "Robot" => Ok(Thing::Robot(Robot(*n))),
                "Owner" => Ok(Thing::Owner(Owner(*n))),
                "Dog" => Ok(Thing::Dog(Dog(*n))),
                _ => bad("a Thing", v),
            },
            v => bad("a Thing", v),
        }
    }
}

#[Object]
impl Dog {
    async fn id(&self, ctx: &Context<'_>) -> Result<ID> {
        res(ctx, self.0, "Dog", "id").await
    }
    async fn name(&self, ctx: &Context<'_>) -> Result<String> {
        res(ctx, self.0, "Dog", "name").await
    }
    async fn nick(&self, ctx: &Context<'_>) -> Result<Option<String>> {
        res(ctx, self.0, "Dog", "nick").await
    }
    async fn age(&self, ctx: &Context<'_>) -> Result<i32> {
        res(ctx, self.0, "Dog", "age").await
    }
    async fn weight(&self, ctx: &Context<'_>) -> Result<f64> {
        res(ctx, self.0, "Dog", "weight").await
    }
    async fn score(&self, ctx: &Context<'_>) -> Result<Option<f64>> {
        res(ctx, self.0, "Dog", "score").await
    }
    async fn ok(&self, ctx: &Context<'_>) -> Result<bool> {
        res(ctx, self.0, "Dog", "ok").await
    }
    async fn mood(&self, ctx: &Context<'_>) -> Result<Mood> {
        res(ctx, self.0, "Dog", "mood").await
    }
    async fn mood_opt(&self, ctx: &Context<'_>) -> Result<Option<Mood>> {
        res(ctx, self.0, "Dog", "moodOpt").await
    }
    async fn tags(&self, ctx: &Context<'_>) -> Result<Vec<String>> {
        res(ctx, self.0, "Dog", "tags").await
    }
    async fn opt_tags(&self, ctx: &Context<'_>) -> Result<Option<Vec<Option<String>>>> {
        res(ctx, self.0, "Dog", "optTags").await
    }
    async fn matrix(&self, ctx: &Context<'_>) -> Result<Vec<Vec<i32>>> {
        res(ctx, self.0, "Dog", "matrix").await
    }
    async fn sparse(&self, ctx: &Context<'_>) -> Result<Option<Vec<Option<Vec<Option<i32>>>>>> {
        res(ctx, self.0, "Dog", "sparse").await
    }
    async fn friend(&self, ctx: &Context<'_>) -> Result<Option<Pet>> {
        res(ctx, self.0, "Dog", "friend").await
    }
    #[graphql(name = "friendNN")]
    async fn friend_nn(&self, ctx: &Context<'_>) -> Result<Pet> {
        res(ctx, self.0, "Dog", "friendNN").await
    }
    async fn friends(&self, ctx: &Context<'_>) -> Result<Vec<Pet>> {
        res(ctx, self.0, "Dog", "friends").await
    }
    async fn friends_opt(&self, ctx: &Context<'_>) -> Result<Option<Vec<Option<Pet>>>> {
        res(ctx, self.0, "Dog", "friendsOpt").await
    }
    async fn thing(&self, ctx: &Context<'_>) -> Result<Option<Thing>> {
        res(ctx, self.0, "Dog", "thing").await
    }
    async fn things(&self, ctx: &Context<'_>) -> Result<Option<Vec<Thing>>> {
        res(ctx, self.0, "Dog", "things").await
    }
    async fn owner(&self, ctx: &Context<'_>) -> Result<Option<Owner>> {
        res(ctx, self.0, "Dog", "owner").await
    }
    #[graphql(name = "self")]
    async fn self_(&self, ctx: &Context<'_>) -> Result<Dog> {
        res(ctx, self.0, "Dog", "self").await
    }
    async fn echo(&self, ctx: &Context<'_>, #[graphql(default = 3)] x: i32, label: Option<String>) -> Result<i32> {
        let _ = (x, label);
        res(ctx, self.0, "Dog", "echo").await
    }
}

#[Object]
impl Cat {
    async fn name(&self, ctx: &Context<'_>) -> Result<String> {
        res(ctx, self.0, "Cat", "name").await
    }
    async fn mood(&self, ctx: &Context<'_>) -> Result<Mood> {
        res(ctx, self.0, "Cat", "mood").await
    }
    async fn friend(&self, ctx: &Context<'_>) -> Result<Option<Pet>> {
        res(ctx, self.0, "Cat", "friend").await
    }
    async fn friends(&self, ctx: &Context<'_>) -> Result<Vec<Pet>> {
        res(ctx, self.0, "Cat", "friends").await
    }
    async fn owner(&self, ctx: &Context<'_>) -> Result<Option<Owner>> {
        res(ctx, self.0, "Cat", "owner").await
    }
    async fn lives(&self, ctx: &Context<'_>) -> Result<i32> {
        res(ctx, self.0, "Cat", "lives").await
    }
    async fn enemy(&self, ctx: &Context<'_>) -> Result<Option<Animal>> {
        res(ctx, self.0, "Cat", "enemy").await
    }
    async fn nick(&self, ctx: &Context<'_>) -> Result<Option<String>> {
        res(ctx, self.0, "Cat", "nick").await
    }
}

#[Object]
impl Robot {
    async fn name(&self, ctx: &Context<'_>) -> Result<String> {
        res(ctx, self.0, "Robot", "name").await
    }
    async fn model(&self, ctx: &Context<'_>) -> Result<String> {
        res(ctx, self.0, "Robot", "model").await
    }
    async fn parts(&self, ctx: &Context<'_>) -> Result<Vec<Robot>> {
        res(ctx, self.0, "Robot", "parts").await
    }
    async fn operator(&self, ctx: &Context<'_>) -> Result<Owner> {
        res(ctx, self.0, "Robot", "operator").await
    }
    async fn serial(&self, ctx: &Context<'_>) -> Result<Option<i32>> {
        res(ctx, self.0, "Robot", "serial").await
    }
}

#[Object]
impl Owner {
    async fn name(&self, ctx: &Context<'_>) -> Result<String> {
        res(ctx, self.0, "Owner", "name").await
    }
    async fn pets(&self, ctx: &Context<'_>, #[graphql(default = 2)] first: Option<i32>) -> Result<Vec<Pet>> {
        let _ = first;
        res(ctx, self.0, "Owner", "pets").await
    }
    async fn favourite(&self, ctx: &Context<'_>) -> Result<Option<Animal>> {
        res(ctx, self.0, "Owner", "favourite").await
    }
    async fn things(&self, ctx: &Context<'_>) -> Result<Option<Vec<Option<Thing>>>> {
        res(ctx, self.0, "Owner", "things").await
    }
    async fn age(&self, ctx: &Context<'_>) -> Result<Option<i32>> {
        res(ctx, self.0, "Owner", "age").await
    }
    /// nullable list of nullable lists of objects
    async fn packs(&self, ctx: &Context<'_>) -> Result<Option<Vec<Option<Vec<Dog>>>>> {
        res(ctx, self.0, "Owner", "packs").await
    }
}

pub struct QueryCore;
#[Object]
impl QueryCore {
    async fn dog(&self, ctx: &Context<'_>, #[graphql(default = 0)] i: i32) -> Result<Option<Dog>> {
        let _ = i;
        res(ctx, root(ctx, 0)?, "Query", "dog").await
    }
    async fn cat(&self, ctx: &Context<'_>) -> Result<Option<Cat>> {
        res(ctx, root(ctx, 0)?, "Query", "cat").await
    }
    async fn pet(&self, ctx: &Context<'_>) -> Result<Option<Pet>> {
        res(ctx, root(ctx, 0)?, "Query", "pet").await
    }
    async fn pets(&self, ctx: &Context<'_>) -> Result<Vec<Pet>> {
        res(ctx, root(ctx, 0)?, "Query", "pets").await
    }
    async fn animal(&self, ctx: &Context<'_>) -> Result<Option<Animal>> {
        res(ctx, root(ctx, 0)?, "Query", "animal").await
    }
    async fn thing(&self, ctx: &Context<'_>) -> Result<Option<Thing>> {
        res(ctx, root(ctx, 0)?, "Query", "thing").await
    }
    async fn things(&self, ctx: &Context<'_>) -> Result<Vec<Option<Thing>>> {
        res(ctx, root(ctx, 0)?, "Query", "things").await
    }
    async fn named(&self, ctx: &Context<'_>) -> Result<Vec<Named>> {
        res(ctx, root(ctx, 0)?, "Query", "named").await
    }
    async fn owner(&self, ctx: &Context<'_>) -> Result<Owner> {
        res(ctx, root(ctx, 0)?, "Query", "owner").await
    }
    async fn n(&self, ctx: &Context<'_>) -> Result<i32> {
        res(ctx, root(ctx, 0)?, "Query", "n").await
    }
    async fn f(&self, ctx: &Context<'_>) -> Result<f64> {
        res(ctx, root(ctx, 0)?, "Query", "f").await
    }
    async fn opt(&self, ctx: &Context<'_>) -> Result<Option<i32>> {
        res(ctx, root(ctx, 0)?, "Query", "opt").await
    }
}

pub struct QueryExtra;
#[Object]
impl QueryExtra {
    async fn extra(&self, ctx: &Context<'_>) -> Result<Option<i32>> {
        res(ctx, root(ctx, 0)?, "Query", "extra").await
    }
    #[graphql(name = "extraNN")]
    async fn extra_nn(&self, ctx: &Context<'_>) -> Result<i32> {
        res(ctx, root(ctx, 0)?, "Query", "extraNN").await
    }
    /// list of lists of an abstract type
    async fn grid(&self, ctx: &Context<'_>) -> Result<Vec<Vec<Pet>>> {
        res(ctx, root(ctx, 0)?, "Query", "grid").await
    }
    async fn stats(&self, ctx: &Context<'_>) -> Result<Option<Stats>> {
        res(ctx, root(ctx, 0)?, "Query", "stats").await
    }
    async fn boxed(&self, ctx: &Context<'_>) -> Result<Option<Boxed<Dog>>> {
        res(ctx, root(ctx, 0)?, "Query", "boxed").await
    }
}

#[derive(MergedObject, Default)]
pub struct Query(QueryCore, QueryExtra);
impl Default for QueryCore {
    fn default() -> Self {
        QueryCore
    }
}
impl Default for QueryExtra {
    fn default() -> Self {
        QueryExtra
    }
}

/// SimpleObject + ComplexObject: plain fields come from the world at construction time, the complex field is a
/// logging resolver
#[derive(SimpleObject)]
#[graphql(complex)]
pub struct Stats {
    #[graphql(skip)]
    node: usize,
    pub a: i32,
    pub b: Option<String>,
}
#[ComplexObject]
impl Stats {
    async fn c(&self, ctx: &Context<'_>, #[graphql(default = 1)] n: i32) -> Result<Option<i32>> {
        let _ = n;
        res(ctx, self.node, "Stats", "c").await
    }
}
impl FromW for Stats {
    fn from_w(v: &WVal, w: &World) -> Result<Self> {
        match v {
            WVal::Ref(n) if w.nodes[*n].ty == "Stats" => Ok(Stats {
                node: *n,
                a: i32::from_w(w.value(*n, "a").unwrap_or(&WVal::Int(0)), w)?,
                b: Option::<String>::from_w(w.value(*n, "b").unwrap_or(&WVal::Null), w)?,
            }),
            v => bad("Stats", v),
        }
    }
}

/// generic object with a concrete name and a flattened-in label
#[derive(SimpleObject)]
#[graphql(concrete(name = "BoxedDog", params(Dog)))]
pub struct Boxed<T: OutputType> {
    pub value: T,
    pub label: Option<String>,
}
impl FromW for Boxed<Dog> {
    fn from_w(v: &WVal, w: &World) -> Result<Self> {
        match v {
            WVal::Ref(n) if w.nodes[*n].ty == "BoxedDog" => Ok(Boxed {
                value: Dog::from_w(w.value(*n, "value").unwrap_or(&WVal::Null), w)?,
                label: Option::<String>::from_w(w.value(*n, "label").unwrap_or(&WVal::Null), w)?,
            }),
            v => bad("BoxedDog", v),
        }
    }
}

fn root(ctx: &Context<'_>, which: usize) -> Result<usize> {
    let rt = ctx.data::<Rt>()?;
    match which {
        0 => Ok(rt.world.query_root),
        1 => rt.world.mutation_root.ok_or_else(|| Error::new("harness: no mutation root")),
        _ => rt.world.subscription_root.ok_or_else(|| Error::new("harness: no subscription root")),
    }
}

pub struct Mutation;
#[Object]
impl Mutation {
    async fn bump(&self, ctx: &Context<'_>, #[graphql(default = 1)] by: i32) -> Result<i32> {
        let _ = by;
        res(ctx, root(ctx, 1)?, "Mutation", "bump").await
    }
    async fn rename(&self, ctx: &Context<'_>, to: Option<String>) -> Result<Option<Pet>> {
        let _ = to;
        res(ctx, root(ctx, 1)?, "Mutation", "rename").await
    }
    async fn noop(&self, ctx: &Context<'_>) -> Result<Option<bool>> {
        res(ctx, root(ctx, 1)?, "Mutation", "noop").await
    }
    async fn adopt(&self, ctx: &Context<'_>) -> Result<Dog> {
        res(ctx, root(ctx, 1)?, "Mutation", "adopt").await
    }
    async fn owner(&self, ctx: &Context<'_>) -> Result<Option<Owner>> {
        res(ctx, root(ctx, 1)?, "Mutation", "owner").await
    }
}

pub type ZSchema = Schema<Query, Mutation, EmptySubscription>;

pub fn build_z(configure: impl FnOnce(SchemaBuilder<Query, Mutation, EmptySubscription>) -> SchemaBuilder<Query, Mutation, EmptySubscription>) -> ZSchema {
    configure(Schema::build(Query::default(), Mutation, EmptySubscription)).finish()
}

/// the `Sch` mirror of Z, read back from Z's SDL by the reference parser
pub fn z_sch(schema: &ZSchema) -> vgql::sch::Sch {
    let mut sch = vgql::sch::from_sdl_text(&schema.sdl()).expect("Z's SDL must be readable by the reference parser");
    // built-in scalars are not types of the model
    for b in vgql::sch::BUILTIN_SCALARS {
        sch.types.shift_remove(b);
    }
    sch
}

/// fields of Z that are plain data (SimpleObject members): no resolver runs for them, so they cannot fail, are not
/// logged and cannot be gated
pub fn is_plain_data_field(parent_type: &str, field: &str) -> bool {
    matches!((parent_type, field), ("Stats", "a") | ("Stats", "b") | ("BoxedDog", _))
}
