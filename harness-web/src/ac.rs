//! actix-web: `GraphQL` handler and the two extractors in user handlers, through `actix_web::test`.
use crate::model::{Endpoint, HttpReq};
use crate::schema::S;
use crate::web::{HttpResp, Integration, Rt};
use actix_web::dev::Service;
use actix_web::{test, web, App};
use async_graphql_actix_web::{GraphQL, GraphQLBatchRequest, GraphQLRequest, GraphQLResponse};
use futures_util::future::LocalBoxFuture;

async fn single(schema: web::Data<S>, req: GraphQLRequest) -> GraphQLResponse {
    schema.execute(req.into_inner()).await.into()
}
async fn batch(schema: web::Data<S>, req: GraphQLBatchRequest) -> GraphQLResponse {
    schema.execute_batch(req.into_inner()).await.into()
}

type Call = Box<dyn Fn(test::TestRequest) -> LocalBoxFuture<'static, HttpResp>>;

pub struct Actix {
    call: Call,
}
impl Actix {
    pub fn new(rt: &Rt, schema: S) -> Actix {
        let app = rt.block_on(test::init_service(
            App::new()
                .app_data(web::Data::new(schema.clone()))
                .service(web::resource("/svc").to(GraphQL::new(schema)))
                .service(web::resource("/single").to(single))
                .service(web::resource("/batch").to(batch)),
        ));
        let app = std::rc::Rc::new(app);
        let call: Call = Box::new(move |treq| {
            let app = app.clone();
            Box::pin(async move {
                match app.call(treq.to_request()).await {
                    Ok(resp) => {
                        let status = resp.status().as_u16();
                        let content_type = resp
                            .headers()
                            .get(actix_web::http::header::CONTENT_TYPE)
                            .and_then(|v| v.to_str().ok())
                            .unwrap_or("")
                            .to_string();
                        let body = test::read_body(resp).await.to_vec();
                        HttpResp { status, content_type, body }
                    }
                    Err(e) => {
                        let r = e.error_response();
                        HttpResp { status: r.status().as_u16(), content_type: String::new(), body: e.to_string().into_bytes() }
                    }
                }
            })
        });
        Actix { call }
    }
}
impl Integration for Actix {
    fn name(&self) -> &'static str {
        "actix-web"
    }
    fn get_endpoints(&self) -> &'static [Endpoint] {
        &[Endpoint::Svc, Endpoint::Single, Endpoint::Batch]
    }
    fn post_endpoints(&self) -> &'static [Endpoint] {
        &[Endpoint::Svc, Endpoint::Single, Endpoint::Batch]
    }
    fn batch_endpoints(&self) -> &'static [Endpoint] {
        &[Endpoint::Batch]
    }
    fn multipart_endpoints(&self) -> &'static [Endpoint] {
        &[Endpoint::Svc]
    }
    fn send(&self, rt: &Rt, req: &HttpReq) -> HttpResp {
        let mut t = if req.get { test::TestRequest::get() } else { test::TestRequest::post() }.uri(&req.path_and_query());
        if let Some(a) = req.accept {
            t = t.insert_header(("accept", a));
        }
        if let Some(b) = &req.body {
            t = t.insert_header(("content-type", "application/json")).set_payload(b.clone());
        }
        rt.block_on((self.call)(t))
    }
}
