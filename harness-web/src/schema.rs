//! The schema under test: a query root, a mutation root whose resolvers write to a global log (the only
//! observation channel the oracle trusts for "did a mutation resolver run"), and a subscription root that only
//! exists so that documents may carry subscription operations as distractors.
use async_graphql::{Object, Schema, Subscription};
use futures_util::stream::{self, Stream};
use std::sync::Mutex;

static LOG: Mutex<Vec<String>> = Mutex::new(Vec::new());

pub fn log_reset() {
    LOG.lock().unwrap().clear();
}
pub fn log_take() -> Vec<String> {
    std::mem::take(&mut *LOG.lock().unwrap())
}

pub struct Query;
#[Object]
impl Query {
    async fn q(&self) -> i32 {
        7
    }
    async fn echo(&self, s: Option<String>) -> Option<String> {
        s
    }
}

pub struct Mutation;
#[Object]
impl Mutation {
    async fn bump(&self) -> i32 {
        LOG.lock().unwrap().push("bump".to_string());
        1
    }
    async fn rename(&self, to: Option<String>) -> Option<String> {
        LOG.lock().unwrap().push(format!("rename:{}", serde_json::json!(to)));
        to
    }
}

pub struct Sub;
#[Subscription]
impl Sub {
    async fn ticks(&self) -> impl Stream<Item = i32> {
        stream::iter([1, 2])
    }
}

pub type S = Schema<Query, Mutation, Sub>;

pub fn build() -> S {
    Schema::build(Query, Mutation, Sub).finish()
}
