//! axum: `GraphQL` service (tower `Service::call`) and the two extractors in user handlers.
use crate::model::{Endpoint, HttpReq};
use crate::schema::S;
use crate::web::{HttpResp, Integration, Rt};
use async_graphql_axum::{GraphQL, GraphQLBatchRequest, GraphQLRequest, GraphQLResponse};
use axum::body::Body;
use axum::extract::State;
use axum::http::{header, Method, Request};
use axum::routing::any;
use axum::Router;
use tower_service::Service;

async fn single(State(schema): State<S>, req: GraphQLRequest) -> GraphQLResponse {
    schema.execute(req.into_inner()).await.into()
}
async fn batch(State(schema): State<S>, req: GraphQLBatchRequest) -> GraphQLResponse {
    schema.execute_batch(req.into_inner()).await.into()
}

pub struct Axum {
    router: Router,
}
impl Axum {
    pub fn new(schema: S) -> Axum {
        let router = Router::new()
            .route_service("/svc", GraphQL::new(schema.clone()))
            .route("/single", any(single))
            .route("/batch", any(batch))
            .with_state(schema);
        Axum { router }
    }
}
impl Integration for Axum {
    fn name(&self) -> &'static str {
        "axum"
    }
    fn get_endpoints(&self) -> &'static [Endpoint] {
        &[Endpoint::Svc, Endpoint::Single, Endpoint::Batch]
    }
    fn post_endpoints(&self) -> &'static [Endpoint] {
        &[Endpoint::Svc, Endpoint::Single, Endpoint::Batch]
    }
    fn batch_endpoints(&self) -> &'static [Endpoint] {
        &[Endpoint::Svc, Endpoint::Batch]
    }
    fn multipart_endpoints(&self) -> &'static [Endpoint] {
        &[Endpoint::Svc]
    }
    fn send(&self, rt: &Rt, req: &HttpReq) -> HttpResp {
        let mut b = Request::builder().method(if req.get { Method::GET } else { Method::POST }).uri(req.path_and_query());
        if let Some(a) = req.accept {
            b = b.header(header::ACCEPT, a);
        }
        if req.body.is_some() {
            b = b.header(header::CONTENT_TYPE, "application/json");
        }
        let hreq = b.body(Body::from(req.body.clone().unwrap_or_default())).expect("request");
        let mut svc = self.router.clone();
        rt.block_on(async move {
            let resp = svc.call(hreq).await.expect("infallible");
            let status = resp.status().as_u16();
            let content_type =
                resp.headers().get(header::CONTENT_TYPE).and_then(|v| v.to_str().ok()).unwrap_or("").to_string();
            let body = axum::body::to_bytes(resp.into_body(), usize::MAX).await.map(|b| b.to_vec()).unwrap_or_default();
            HttpResp { status, content_type, body }
        })
    }
}
