//! warp: the `graphql()` and `graphql_batch()` filters, through `warp::test::request()`.
use crate::model::{Endpoint, HttpReq};
use crate::schema::S;
use crate::web::{HttpResp, Integration, Rt};
use async_graphql::{BatchRequest, Request};
use async_graphql_warp::{graphql, graphql_batch, GraphQLBadRequest, GraphQLBatchResponse, GraphQLResponse};
use std::convert::Infallible;
use warp::filters::BoxedFilter;
use warp::http::StatusCode;
use warp::{Filter, Rejection, Reply};

pub struct Warp {
    routes: BoxedFilter<(warp::reply::Response,)>,
}
impl Warp {
    pub fn new(schema: S) -> Warp {
        let single = warp::path("single").and(graphql(schema.clone())).and_then(|(schema, request): (S, Request)| async move {
            Ok::<_, Infallible>(GraphQLResponse::from(schema.execute(request).await).into_response())
        });
        let batch = warp::path("batch").and(graphql_batch(schema)).and_then(|(schema, request): (S, BatchRequest)| async move {
            Ok::<_, Infallible>(GraphQLBatchResponse::from(schema.execute_batch(request).await).into_response())
        });
        // the rejection handler the crate documents
        let routes = single.or(batch).unify().recover(|err: Rejection| async move {
            if let Some(GraphQLBadRequest(err)) = err.find() {
                return Ok::<_, Rejection>(warp::reply::with_status(err.to_string(), StatusCode::BAD_REQUEST).into_response());
            }
            Err(err)
        });
        Warp { routes: routes.unify().boxed() }
    }
}
impl Integration for Warp {
    fn name(&self) -> &'static str {
        "warp"
    }
    fn get_endpoints(&self) -> &'static [Endpoint] {
        &[Endpoint::Single, Endpoint::Batch]
    }
    fn post_endpoints(&self) -> &'static [Endpoint] {
        &[Endpoint::Single, Endpoint::Batch]
    }
    fn batch_endpoints(&self) -> &'static [Endpoint] {
        &[Endpoint::Batch]
    }
    fn multipart_endpoints(&self) -> &'static [Endpoint] {
        &[]
    }
    fn send(&self, rt: &Rt, req: &HttpReq) -> HttpResp {
        let mut b = warp::test::request().method(if req.get { "GET" } else { "POST" }).path(&req.path_and_query());
        if let Some(a) = req.accept {
            b = b.header("accept", a);
        }
        if let Some(body) = &req.body {
            b = b.header("content-type", "application/json").body(body.clone());
        }
        rt.block_on(async {
            let resp = b.reply(&self.routes).await;
            HttpResp {
                status: resp.status().as_u16(),
                content_type: resp.headers().get("content-type").and_then(|v| v.to_str().ok()).unwrap_or("").to_string(),
                body: resp.body().to_vec(),
            }
        })
    }
}
