//! Harness-side reference integration (NOT code under test): handles GET the way the property demands —
//! parse the query string, find the selected operation, refuse mutations with 405 — and POST like the real
//! ones. It shows on every run that the oracle accepts a conforming integration and keeps the main stream
//! searching GET-mutation requests while all five real findings are open.
use crate::model::{Endpoint, HttpReq};
use crate::schema::S;
use crate::web::{HttpResp, Integration, Rt};
use async_graphql::parser::types::{DocumentOperations, OperationType};

pub struct Stub {
    pub schema: S,
}
impl Integration for Stub {
    fn name(&self) -> &'static str {
        "stub"
    }
    fn get_endpoints(&self) -> &'static [Endpoint] {
        &[Endpoint::Single]
    }
    fn post_endpoints(&self) -> &'static [Endpoint] {
        &[Endpoint::Single]
    }
    fn batch_endpoints(&self) -> &'static [Endpoint] {
        &[Endpoint::Single]
    }
    fn multipart_endpoints(&self) -> &'static [Endpoint] {
        &[]
    }
    fn send(&self, rt: &Rt, req: &HttpReq) -> HttpResp {
        let plain = |status: u16, msg: &str| HttpResp { status, content_type: "text/plain".into(), body: msg.as_bytes().to_vec() };
        let json = |v: String| HttpResp { status: 200, content_type: "application/json".into(), body: v.into_bytes() };
        if req.get {
            let mut r = match async_graphql::http::parse_query_string(req.query_string.as_deref().unwrap_or("")) {
                Ok(r) => r,
                Err(e) => return plain(400, &e.to_string()),
            };
            let name = r.operation_name.clone();
            if let Ok(doc) = r.parsed_query() {
                let selected = match (&doc.operations, name) {
                    (DocumentOperations::Single(op), None) => Some(op.node.ty),
                    (DocumentOperations::Multiple(m), None) if m.len() == 1 => m.values().next().map(|o| o.node.ty),
                    (DocumentOperations::Multiple(m), Some(n)) => m.get(n.as_str()).map(|o| o.node.ty),
                    _ => None,
                };
                if selected == Some(OperationType::Mutation) {
                    return plain(405, "mutations are not allowed over GET");
                }
            }
            json(serde_json::to_string(&rt.block_on(self.schema.execute(r))).unwrap())
        } else {
            match serde_json::from_str::<async_graphql::BatchRequest>(req.body.as_deref().unwrap_or("")) {
                Ok(b) => json(serde_json::to_string(&rt.block_on(self.schema.execute_batch(b))).unwrap()),
                Err(e) => plain(400, &e.to_string()),
            }
        }
    }
}
