//! Request model and generator. Documents are generated together with their specification meaning (which
//! operation a request selects, the response data and the mutation-resolver calls a normal execution of that
//! operation produces), so the oracle never asks async-graphql what a document means.
use serde_json::{json, Map, Value as Json};
use vcore::Src;

#[derive(Clone, Copy, PartialEq, Eq, Debug)]
pub enum Kind {
    Query,
    Mutation,
    Subscription,
}

/// What the GraphQL specification says one GraphQL request (document, operationName, variables) means.
#[derive(Clone, Debug)]
pub enum Meaning {
    /// GetOperation() succeeds: kind of the selected operation, its response data, the resolver calls of the
    /// mutation root in execution order (empty for queries)
    Selected { kind: Kind, data: Json, log: Vec<String> },
    /// GetOperation() fails (unknown name, or no name although the document has several operations)
    NoOperation,
}

/// One GraphQL request as the three protocol parameters.
#[derive(Clone, Debug)]
pub struct GqlReq {
    pub query: String,
    pub operation_name: Option<String>,
    pub variables: Option<Map<String, Json>>,
    pub meaning: Meaning,
    /// labels describing the shape of the document (evidence classes)
    pub shape: Vec<&'static str>,
}

#[derive(Clone, Copy, PartialEq, Eq, Debug)]
pub enum Want {
    /// the selected operation is a mutation
    Mutation,
    /// the selected operation is a query (the document may still contain mutation operations)
    Query,
    /// operation selection must fail
    NoOperation,
}

/// characters that matter for URL encoding, JSON encoding and GraphQL string literals
fn gen_text(s: &mut dyn Src) -> String {
    const SPECIAL: [char; 20] =
        [' ', '&', '=', '+', '%', '#', '?', '/', '"', '\\', '{', '}', ':', ',', '\n', 'é', '中', '😀', '~', '\''];
    let n = s.choose(7);
    (0..n)
        .map(|_| match s.choose(3) {
            0 => (b'a' + s.choose(26) as u8) as char,
            1 => (b'0' + s.choose(10) as u8) as char,
            _ => SPECIAL[s.choose(SPECIAL.len())],
        })
        .collect()
}

fn gql_string(t: &str) -> String {
    let mut o = String::from("\"");
    for c in t.chars() {
        match c {
            '"' => o.push_str("\\\""),
            '\\' => o.push_str("\\\\"),
            '\n' => o.push_str("\\n"),
            c => o.push(c),
        }
    }
    o.push('"');
    o
}

struct OpOut {
    text: String,
    fragments: Vec<String>,
    data: Map<String, Json>,
    log: Vec<String>,
    vars: Map<String, Json>,
    shape: Vec<&'static str>,
}

/// Response keys are unique inside an operation (by construction: field merging of repeated keys is the
/// subject of other properties), so data and log are simply the fields in document order.
fn gen_op(s: &mut dyn Src, kind: Kind, name: Option<&str>, uniq: &mut usize) -> OpOut {
    let mut o = OpOut { text: String::new(), fragments: vec![], data: Map::new(), log: vec![], vars: Map::new(), shape: vec![] };
    let (root, keyword) = match kind {
        Kind::Query => ("Query", "query"),
        Kind::Mutation => ("Mutation", "mutation"),
        Kind::Subscription => ("Sub", "subscription"),
    };
    if kind == Kind::Subscription {
        o.text = format!("subscription {} {{ ticks }}", name.unwrap_or(""));
        return o;
    }
    let nfields = 1 + s.weighted(&[6, 3, 1]);
    let mut var_defs: Vec<String> = vec![];
    let mut sel = String::new();
    let mut used_plain: Vec<&str> = vec![];
    for i in 0..nfields {
        // field + arguments + its value
        // the first field is always a real resolver of the root (so that a mutation run shows in the log)
        let fk = if i == 0 { s.weighted(&[3, 2]) } else { s.weighted(&[3, 2, 1]) };
        let (fname, argname) = match (kind, fk) {
            (Kind::Mutation, 0) => ("bump", None),
            (Kind::Mutation, 1) => ("rename", Some("to")),
            (Kind::Query, 0) => ("q", None),
            (Kind::Query, 1) => ("echo", Some("s")),
            _ => ("__typename", None),
        };
        let mut args = String::new();
        let mut value = match fname {
            "bump" => json!(1),
            "q" => json!(7),
            "__typename" => json!(root),
            _ => Json::Null,
        };
        if let Some(an) = argname {
            match s.weighted(&[4, 3, 1]) {
                0 => {
                    let t = gen_text(s);
                    args = format!("({}: {})", an, gql_string(&t));
                    value = json!(t);
                }
                1 => {
                    *uniq += 1;
                    let vn = format!("v{}", *uniq);
                    o.shape.push("variables");
                    match s.weighted(&[5, 2, 1, 1]) {
                        0 => {
                            let t = gen_text(s);
                            var_defs.push(format!("${}: String", vn));
                            o.vars.insert(vn.clone(), json!(t));
                            value = json!(t);
                        }
                        1 => {
                            // omitted, default applies
                            let t = gen_text(s);
                            var_defs.push(format!("${}: String = {}", vn, gql_string(&t)));
                            value = json!(t);
                        }
                        2 => {
                            // provided and a default that must lose
                            let t = gen_text(s);
                            var_defs.push(format!("${}: String = \"unused\"", vn));
                            o.vars.insert(vn.clone(), json!(t));
                            value = json!(t);
                        }
                        _ => {
                            var_defs.push(format!("${}: String", vn));
                            o.vars.insert(vn.clone(), Json::Null);
                        }
                    }
                    args = format!("({}: ${})", an, vn);
                }
                _ => {} // argument omitted: null
            }
        }
        let key = if used_plain.contains(&fname) || s.chance(1, 3) {
            *uniq += 1;
            o.shape.push("alias");
            format!("k{}", *uniq)
        } else {
            used_plain.push(fname);
            fname.to_string()
        };
        let field = if key == fname { format!("{}{}", fname, args) } else { format!("{}: {}{}", key, fname, args) };
        match fname {
            "bump" => o.log.push("bump".into()),
            "rename" => o.log.push(format!("rename:{}", value)),
            _ => {}
        }
        o.data.insert(key, value);
        // placement: plain, inline fragment, named fragment (named fragments cannot use the operation's
        // variables here: keeps "variable defined in every operation using the fragment" trivially true)
        let wrapped = match s.weighted(&[6, 1, 1, 2]) {
            0 => field,
            1 => {
                o.shape.push("inline-fragment");
                format!("... on {} {{ {} }}", root, field)
            }
            2 => {
                o.shape.push("inline-fragment");
                format!("... {{ {} }}", field)
            }
            _ => {
                if args.contains('$') {
                    field
                } else {
                    *uniq += 1;
                    o.shape.push("fragment-spread");
                    let fname = format!("F{}", *uniq);
                    o.fragments.push(format!("fragment {} on {} {{ {} }}", fname, root, field));
                    format!("...{}", fname)
                }
            }
        };
        if !sel.is_empty() {
            sel.push_str(if s.bool() { " " } else { ", " });
        }
        sel.push_str(&wrapped);
    }
    let vd = if var_defs.is_empty() { String::new() } else { format!("({})", var_defs.join(", ")) };
    o.text = match (kind, name) {
        (Kind::Query, None) if var_defs.is_empty() && s.bool() => format!("{{ {} }}", sel),
        (_, None) => format!("{}{} {{ {} }}", keyword, vd, sel),
        (_, Some(n)) => format!("{} {}{} {{ {} }}", keyword, n, vd, sel),
    };
    o
}

/// operation names, including names that look like keywords or fields (a guard that greps the text is fooled)
const NAMES: [&str; 8] = ["M", "Q", "mutation", "query", "bump", "subscription", "A_1", "q"];

/// leading trivia in front of the first definition (ignored tokens: a guard keyed on a text prefix is fooled)
const TRIVIA: [&str; 6] = ["", " ", "\n\t", "# query { q }\n", ",,", "\u{feff}"];

pub fn gen_gql(s: &mut dyn Src, want: Want) -> GqlReq {
    let mut uniq = 0usize;
    let target_kind = match want {
        Want::Mutation => Kind::Mutation,
        Want::Query => Kind::Query,
        Want::NoOperation => {
            if s.bool() {
                Kind::Mutation
            } else {
                Kind::Query
            }
        }
    };
    // number of operations; index 0 = a lone operation
    let nops = 1 + s.weighted(&[5, 3, 2]);
    let target = s.choose(nops);
    let mut names: Vec<&str> = NAMES.to_vec();
    let mut texts: Vec<String> = vec![];
    let mut frags: Vec<String> = vec![];
    let mut shape: Vec<&'static str> = vec![];
    let mut sel: Option<(Option<String>, OpOut)> = None;
    let anonymous = nops == 1 && want != Want::NoOperation && !s.chance(2, 5);
    let mut other_kinds = vec![];
    for i in 0..nops {
        let kind = if i == target {
            target_kind
        } else {
            match s.weighted(&[3, 3, 1]) {
                0 => Kind::Mutation,
                1 => Kind::Query,
                _ => Kind::Subscription,
            }
        };
        let name = if anonymous { None } else { Some(names.remove(s.choose(names.len()))) };
        let op = gen_op(s, kind, name, &mut uniq);
        texts.push(op.text.clone());
        frags.extend(op.fragments.iter().cloned());
        if i == target {
            sel = Some((name.map(str::to_string), op));
        } else {
            other_kinds.push(kind);
        }
    }
    let (sel_name, op) = sel.unwrap();
    if nops > 1 {
        shape.push("multi-operation");
        if other_kinds.contains(&Kind::Mutation) {
            shape.push("doc-has-other-mutation");
        }
        if other_kinds.contains(&Kind::Query) {
            shape.push("doc-has-other-query");
        }
    }
    if anonymous {
        shape.push("anonymous");
    } else if matches!(sel_name.as_deref(), Some("mutation" | "query" | "subscription" | "bump" | "q")) {
        shape.push("name-looks-like-keyword");
    }
    // definitions in some order: fragments before or after the operations
    let mut defs: Vec<String> = vec![];
    if s.bool() {
        defs.extend(texts);
        defs.extend(frags);
    } else {
        defs.extend(frags);
        defs.extend(texts);
    }
    let tr = TRIVIA[s.weighted(&[10, 1, 1, 1, 1, 1])];
    if !tr.is_empty() {
        shape.push("leading-trivia");
    }
    let query = format!("{}{}", tr, defs.join(if s.bool() { " " } else { "\n" }));
    shape.extend(op.shape.iter().copied());
    shape.sort();
    shape.dedup();
    let (operation_name, meaning) = match want {
        Want::NoOperation => {
            shape.push("no-operation");
            if nops > 1 && s.bool() {
                (None, Meaning::NoOperation)
            } else {
                (Some("Nope".to_string()), Meaning::NoOperation)
            }
        }
        _ => {
            let send_name = if nops > 1 { true } else { sel_name.is_some() && s.bool() };
            if send_name {
                shape.push("operationName");
            }
            (
                if send_name { sel_name.clone() } else { None },
                Meaning::Selected { kind: target_kind, data: Json::Object(op.data.clone()), log: op.log.clone() },
            )
        }
    };
    let variables = if op.vars.is_empty() {
        if s.chance(1, 8) {
            Some(Map::new())
        } else {
            None
        }
    } else {
        Some(op.vars.clone())
    };
    GqlReq { query, operation_name, variables, meaning, shape }
}

// ---------------------------------------------------------------------------------------------------------
// HTTP level

#[derive(Clone, Copy, PartialEq, Eq, Debug)]
pub enum Endpoint {
    /// the integration's ready-made service / handler / endpoint (`GraphQL::new(schema)`)
    Svc,
    /// a user handler taking the single-request extractor (`GraphQLRequest`, warp `graphql()`, rocket
    /// `GraphQLQuery` for GET)
    Single,
    /// a user handler taking the batch extractor (`GraphQLBatchRequest`, warp `graphql_batch()`)
    Batch,
}
impl Endpoint {
    pub fn path(self) -> &'static str {
        match self {
            Endpoint::Svc => "/svc",
            Endpoint::Single => "/single",
            Endpoint::Batch => "/batch",
        }
    }
}

pub const ACCEPT_MULTIPART: &str = "multipart/mixed; boundary=\"graphql\"; subscriptionSpec=\"1.0\", application/json";

#[derive(Clone, Debug)]
pub struct HttpReq {
    pub get: bool,
    pub endpoint: Endpoint,
    /// raw query string (without `?`), GET only
    pub query_string: Option<String>,
    /// JSON body, POST only
    pub body: Option<String>,
    pub accept: Option<&'static str>,
}
impl HttpReq {
    pub fn path_and_query(&self) -> String {
        match &self.query_string {
            Some(q) => format!("{}?{}", self.endpoint.path(), q),
            None => self.endpoint.path().to_string(),
        }
    }
    pub fn render(&self) -> String {
        format!(
            "{} {}{}{}",
            if self.get { "GET" } else { "POST" },
            self.path_and_query(),
            self.accept.map(|a| format!(" [accept: {}]", a)).unwrap_or_default(),
            self.body.as_ref().map(|b| format!(" body={}", b)).unwrap_or_default()
        )
    }
}

/// Percent-encoding styles for a query-string value. All of them are valid `application/x-www-form-urlencoded`
/// spellings of the same value.
pub const ENC_STYLES: [&str; 5] = ["enc:standard", "enc:plus-space", "enc:lower-hex", "enc:every-byte", "enc:browser-minimal"];

pub fn encode(value: &str, style: usize) -> String {
    let mut o = String::new();
    for &b in value.as_bytes() {
        let unreserved = b.is_ascii_alphanumeric() || matches!(b, b'-' | b'.' | b'_' | b'~');
        let keep = match style {
            3 => false,
            // what a browser leaves alone in a query string typed into a link
            4 => unreserved || matches!(b, b'{' | b'}' | b'(' | b')' | b':' | b',' | b'!' | b'$' | b'@' | b'*' | b';' | b'/' | b'?'),
            _ => unreserved,
        };
        if keep {
            o.push(b as char);
        } else if b == b' ' && style == 1 {
            o.push('+');
        } else if style == 2 {
            o.push_str(&format!("%{:02x}", b));
        } else {
            o.push_str(&format!("%{:02X}", b));
        }
    }
    o
}

pub fn query_string(s: &mut dyn Src, g: &GqlReq, style: usize) -> String {
    let mut params: Vec<(&str, String)> = vec![("query", g.query.clone())];
    if let Some(n) = &g.operation_name {
        params.push(("operationName", n.clone()));
    }
    if let Some(v) = &g.variables {
        params.push(("variables", Json::Object(v.clone()).to_string()));
    }
    if s.chance(1, 8) {
        params.push(("extensions", "{}".to_string()));
    }
    // parameter order is free
    let mut out: Vec<String> = vec![];
    while !params.is_empty() {
        let (k, v) = params.remove(s.choose(params.len()));
        out.push(format!("{}={}", k, encode(&v, style)));
    }
    out.join("&")
}

pub fn json_body(g: &GqlReq) -> Json {
    let mut m = Map::new();
    m.insert("query".into(), json!(g.query));
    if let Some(n) = &g.operation_name {
        m.insert("operationName".into(), json!(n));
    }
    if let Some(v) = &g.variables {
        m.insert("variables".into(), Json::Object(v.clone()));
    }
    Json::Object(m)
}
