//! vweb — check binary for C35 (the only property that needs the web frameworks).
mod c35;
mod model;
mod schema;
mod stub;
mod web;

#[cfg(feature = "actix")]
mod ac;
#[cfg(feature = "axum")]
mod ax;
#[cfg(feature = "poem")]
mod po;
#[cfg(feature = "rocket")]
mod ro;
#[cfg(feature = "warp")]
mod wa;

use c35::Target;
use vcore::drive::{install_panic_hook, parse_cli};
use vcore::Ctx;
use web::Integration;

fn main() {
    install_panic_hook();
    let (id, tier, replay) = parse_cli();
    if id != "C35" {
        eprintln!("vweb only knows C35");
        std::process::exit(2);
    }
    let mut ctx = Ctx::new(&id, tier, "exploration");
    if let Some(r) = replay {
        // replay files of explicit witnesses carry no choice vector: those re-run the whole (deterministic) check
        if vcore::drive::read_json(&r).map(|v| v["choices"].is_array()).unwrap_or(false) {
            ctx.replay = Some(r);
        }
    }
    let rt = web::Rt::new();
    let schema = schema::build();
    let mut integs: Vec<Box<dyn Integration>> = vec![];
    #[allow(unused_mut)]
    let mut not_covered: Vec<&str> = vec![];
    #[cfg(feature = "axum")]
    integs.push(Box::new(ax::Axum::new(schema.clone())));
    #[cfg(not(feature = "axum"))]
    not_covered.push("axum");
    #[cfg(feature = "actix")]
    integs.push(Box::new(ac::Actix::new(&rt, schema.clone())));
    #[cfg(not(feature = "actix"))]
    not_covered.push("actix-web");
    #[cfg(feature = "poem")]
    integs.push(Box::new(po::Poem::new(schema.clone())));
    #[cfg(not(feature = "poem"))]
    not_covered.push("poem");
    #[cfg(feature = "warp")]
    integs.push(Box::new(wa::Warp::new(schema.clone())));
    #[cfg(not(feature = "warp"))]
    not_covered.push("warp");
    #[cfg(feature = "rocket")]
    integs.push(Box::new(ro::Rocket::new(&rt, schema.clone())));
    #[cfg(not(feature = "rocket"))]
    not_covered.push("rocket");
    integs.push(Box::new(stub::Stub { schema }));
    let targets: Vec<Target> = integs
        .into_iter()
        .map(|integ| {
            let open = c35::finding_of(integ.name()).map(|f| ctx.open(f)).unwrap_or(false);
            Target { integ, open }
        })
        .collect();
    if let Err(panic) = vcore::drive::catch(std::panic::AssertUnwindSafe(|| c35::run(&mut ctx, &rt, targets, &not_covered))) {
        // nothing may end a check silently (the panic hook records the message instead of printing it)
        eprintln!("INCONCLUSIVE: panic outside a generated case: {}", panic);
        std::process::exit(2);
    }
    ctx.finish();
}
