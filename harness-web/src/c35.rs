//! C35 — a request received over HTTP GET by a bundled integration never executes a mutation operation: it is
//! answered with an error and no mutation resolver runs.
use crate::model::*;
use crate::schema;
use crate::web::{HttpResp, Integration, Rt};
use serde_json::{json, Value as Json};
use vcore::{Case, Ctx, Src};

/// finding id per integration call site
pub fn finding_of(name: &str) -> Option<&'static str> {
    match name {
        "axum" => Some("C35-F1"),
        "actix-web" => Some("C35-F2"),
        "poem" => Some("C35-F3"),
        "warp" => Some("C35-F4"),
        "rocket" => Some("C35-F5"),
        _ => None,
    }
}

pub struct Target {
    pub integ: Box<dyn Integration>,
    /// the integration's GET-executes-mutations finding is listed as open
    pub open: bool,
}

#[derive(Clone, Copy, PartialEq, Eq, Debug)]
enum Shape {
    GetMutation,
    GetQuery,
    PostMutation,
    PostQuery,
    GetNoOperation,
    PostNoOperation,
    PostBatch,
}

struct Spec {
    target: usize,
    shape: Shape,
    http: HttpReq,
    /// the GraphQL requests carried (one, or the entries of a POST array)
    gql: Vec<GqlReq>,
    enc: Option<usize>,
}

fn pick_ep(s: &mut dyn Src, eps: &'static [Endpoint]) -> Endpoint {
    eps[s.choose(eps.len())]
}

fn gen_spec(s: &mut dyn Src, targets: &[Target], probe: bool) -> Spec {
    let target = s.choose(targets.len());
    let t = &targets[target];
    let shape = if probe {
        Shape::GetMutation
    } else {
        // the construct of an open finding is excluded from the main stream by construction
        let w_getmut = if t.open { 0 } else { 8 };
        [
            Shape::GetMutation,
            Shape::GetQuery,
            Shape::PostMutation,
            Shape::PostBatch,
            Shape::PostQuery,
            Shape::GetNoOperation,
            Shape::PostNoOperation,
        ][s.weighted(&[w_getmut, 5, 4, 2, 1, 1, 1])]
    };
    let integ = &t.integ;
    let mut enc = None;
    let (http, gql) = match shape {
        Shape::GetMutation | Shape::GetQuery | Shape::GetNoOperation => {
            let g = gen_gql(
                s,
                match shape {
                    Shape::GetMutation => Want::Mutation,
                    Shape::GetQuery => Want::Query,
                    _ => Want::NoOperation,
                },
            );
            let endpoint = pick_ep(s, integ.get_endpoints());
            let style = s.weighted(&[4, 2, 2, 1, 3]);
            enc = Some(style);
            let qs = query_string(s, &g, style);
            let accept = if integ.multipart_endpoints().contains(&endpoint) && s.chance(1, 4) { Some(ACCEPT_MULTIPART) } else { None };
            (HttpReq { get: true, endpoint, query_string: Some(qs), body: None, accept }, vec![g])
        }
        Shape::PostMutation | Shape::PostQuery | Shape::PostNoOperation => {
            let g = gen_gql(
                s,
                match shape {
                    Shape::PostMutation => Want::Mutation,
                    Shape::PostQuery => Want::Query,
                    _ => Want::NoOperation,
                },
            );
            let endpoint = pick_ep(s, integ.post_endpoints());
            let accept = if integ.multipart_endpoints().contains(&endpoint) && s.chance(1, 4) { Some(ACCEPT_MULTIPART) } else { None };
            (HttpReq { get: false, endpoint, query_string: None, body: Some(json_body(&g).to_string()), accept }, vec![g])
        }
        Shape::PostBatch => {
            let n = 1 + s.choose(3);
            let gs: Vec<GqlReq> = (0..n)
                .map(|_| {
                    let w = [Want::Mutation, Want::Query, Want::NoOperation][s.weighted(&[5, 2, 1])];
                    gen_gql(s, w)
                })
                .collect();
            let endpoint = pick_ep(s, integ.batch_endpoints());
            let body = Json::Array(gs.iter().map(json_body).collect()).to_string();
            (HttpReq { get: false, endpoint, query_string: None, body: Some(body), accept: None }, gs)
        }
    };
    Spec { target, shape, http, gql, enc }
}

// ---------------------------------------------------------------------------------------------------------
// observation and oracle

struct Observed {
    status: u16,
    body_text: String,
    /// GraphQL response payloads carried by the HTTP response: the JSON body, or the JSON parts of a
    /// multipart/mixed body; None if the body is not of that form
    payloads: Option<Vec<Json>>,
    log: Vec<String>,
}

fn observe(resp: HttpResp, log: Vec<String>) -> Observed {
    let body_text = String::from_utf8_lossy(&resp.body).to_string();
    let payloads = if resp.content_type.starts_with("multipart/mixed") {
        // --graphql CRLF headers CRLF CRLF json CRLF ... --graphql-- CRLF
        let mut out = Some(vec![]);
        for part in body_text.split("--graphql").skip(1) {
            if part.starts_with("--") {
                break;
            }
            match part.split_once("\r\n\r\n").and_then(|(_, b)| serde_json::from_str::<Json>(b.trim_end()).ok()) {
                Some(v) => out.as_mut().unwrap().push(v),
                None => {
                    out = None;
                    break;
                }
            }
        }
        out
    } else {
        serde_json::from_slice::<Json>(&resp.body).ok().map(|v| vec![v])
    };
    Observed { status: resp.status, body_text, payloads, log }
}

fn has_errors(p: &Json) -> bool {
    p.get("errors").and_then(|e| e.as_array()).map(|a| !a.is_empty()).unwrap_or(false)
}
/// the normal execution result: exactly the expected data, no errors
fn is_normal(p: &Json, data: &Json) -> bool {
    p.is_object() && p.get("data") == Some(data) && !has_errors(p)
}
/// a GraphQL error answer: errors present, no data
fn is_error(p: &Json) -> bool {
    p.is_object() && has_errors(p) && p.get("data").map(|d| d.is_null()).unwrap_or(true)
}
fn single_payload(o: &Observed) -> Option<&Json> {
    match &o.payloads {
        Some(v) if v.len() == 1 => Some(&v[0]),
        _ => None,
    }
}
/// "answered with an error": a non-2xx status, or one GraphQL error answer
fn error_answer(o: &Observed) -> bool {
    !(200..300).contains(&o.status) || single_payload(o).map(is_error).unwrap_or(false)
}

fn describe(m: &Meaning) -> String {
    match m {
        Meaning::NoOperation => "no operation selected".into(),
        Meaning::Selected { kind, data, log } => format!("selects {:?} data={} resolver-calls={:?}", kind, data, log),
    }
}

fn run_spec(rt: &Rt, targets: &[Target], sp: &Spec) -> Case {
    let t = &targets[sp.target];
    let name = t.integ.name();
    schema::log_reset();
    let resp = t.integ.send(rt, &sp.http);
    let log = schema::log_take();
    let o = observe(resp, log);
    let text = format!(
        "{} {} | {} => status={} body={} resolver-calls={:?}",
        name,
        sp.http.render(),
        sp.gql.iter().map(|g| describe(&g.meaning)).collect::<Vec<_>>().join(" ; "),
        o.status,
        vcore::drive::truncate(&o.body_text, 600),
        o.log
    );
    let mut classes: Vec<String> = vec![format!("{}:requests", name), format!("endpoint:{}", sp.http.endpoint.path())];
    if let Some(e) = sp.enc {
        classes.push(ENC_STYLES[e].to_string());
    }
    if sp.http.accept.is_some() {
        classes.push("accept-multipart-mixed".into());
    }
    for g in &sp.gql {
        for sh in &g.shape {
            classes.push(format!("doc:{}", sh));
        }
    }
    let with = |mut c: Case, outcome: &str, nontrivial: bool| {
        for cl in &classes {
            c = c.class(cl.clone());
        }
        c.class(format!("{}:{}", name, outcome)).nontrivial(nontrivial)
    };
    if sp.shape == Shape::PostBatch {
        // array in, array out, entry by entry; resolver calls of the entries in order
        let arr = match single_payload(&o).and_then(|p| p.as_array()) {
            Some(a) if o.status == 200 && a.len() == sp.gql.len() => a,
            _ => return with(Case::fail(text, "POST of a JSON array was not answered with an array of the same length"), "post-batch", true),
        };
        let mut want_log = vec![];
        for (g, p) in sp.gql.iter().zip(arr) {
            match &g.meaning {
                Meaning::Selected { data, log, .. } => {
                    want_log.extend(log.iter().cloned());
                    if !is_normal(p, data) {
                        return with(Case::fail(text, format!("batch entry: expected data {} got {}", data, p)), "post-batch", true);
                    }
                }
                Meaning::NoOperation => {
                    if !is_error(p) {
                        return with(Case::fail(text, format!("batch entry without operation must be an error, got {}", p)), "post-batch", true);
                    }
                }
            }
        }
        if o.log != want_log {
            return with(Case::fail(text, format!("resolver calls {:?}, expected {:?}", o.log, want_log)), "post-batch", true);
        }
        let ran = !want_log.is_empty();
        return with(Case::pass(text), if ran { "post-batch:mutations-executed" } else { "post-batch:no-mutation" }, ran);
    }
    let g = &sp.gql[0];
    match (&g.meaning, sp.http.get) {
        (Meaning::Selected { kind: Kind::Mutation, data, log }, true) => {
            // the property itself
            if o.log.is_empty() && error_answer(&o) {
                return with(Case::pass(text), "get-mutation:rejected", true);
            }
            let executed_like_post = o.status == 200 && single_payload(&o).map(|p| is_normal(p, data)).unwrap_or(false) && o.log == *log;
            match finding_of(name) {
                Some(f) if t.open && executed_like_post => with(Case::known(text, vec![f.to_string()]), "get-mutation:known-executed", true),
                _ if executed_like_post => with(
                    Case::fail(text, "GET request executed a mutation: resolvers ran and the normal result was returned"),
                    "get-mutation:executed",
                    true,
                ),
                _ => with(
                    Case::fail(
                        text,
                        format!(
                            "GET request selecting a mutation: resolver calls {:?} (must be none), error answer: {} — neither a rejection nor a plain execution ({:?})",
                            o.log,
                            error_answer(&o),
                            log
                        ),
                    ),
                    "get-mutation:other",
                    true,
                ),
            }
        }
        (Meaning::Selected { kind, data, log }, get) => {
            // controls: queries over GET and POST, mutations over POST execute normally
            let ok = o.status == 200 && single_payload(&o).map(|p| is_normal(p, data)).unwrap_or(false) && o.log == *log;
            let label = match (kind, get) {
                (Kind::Mutation, _) => "post-mutation:executed",
                (_, true) => "get-query:executed",
                (_, false) => "post-query:executed",
            };
            if ok {
                let c = with(Case::pass(text), label, true);
                if get && g.shape.contains(&"doc-has-other-mutation") {
                    c.class(format!("{}:get-query:executed:doc-has-mutation", name))
                } else {
                    c
                }
            } else {
                with(Case::fail(text, format!("control: expected status 200, data {} and resolver calls {:?}", data, log)), label, true)
            }
        }
        (Meaning::NoOperation, _) => {
            if o.log.is_empty() && error_answer(&o) {
                with(Case::pass(text), "no-operation:rejected", false)
            } else {
                with(Case::fail(text, "no operation can be selected, yet the answer is not an error or a resolver ran"), "no-operation", true)
            }
        }
    }
}

// ---------------------------------------------------------------------------------------------------------
// explicit witnesses (regression cases of the findings and of the controls)

fn fixed(query: &str, op: Option<&str>, vars: Option<Json>, kind: Kind, data: Json, log: &[&str]) -> GqlReq {
    GqlReq {
        query: query.to_string(),
        operation_name: op.map(str::to_string),
        variables: vars.map(|v| v.as_object().unwrap().clone()),
        meaning: Meaning::Selected { kind, data, log: log.iter().map(|s| s.to_string()).collect() },
        shape: vec![],
    }
}

fn witnesses(targets: &[Target]) -> Vec<Spec> {
    let mixed = "query Q { q } mutation M { bump }";
    let mut out = vec![];
    for (ti, t) in targets.iter().enumerate() {
        let get = |g: &GqlReq, endpoint: Endpoint, style: usize, accept: Option<&'static str>, shape: Shape| {
            let mut qs = format!("query={}", encode(&g.query, style));
            if let Some(n) = &g.operation_name {
                qs.push_str(&format!("&operationName={}", encode(n, style)));
            }
            if let Some(v) = &g.variables {
                qs.push_str(&format!("&variables={}", encode(&Json::Object(v.clone()).to_string(), style)));
            }
            Spec { target: ti, shape, http: HttpReq { get: true, endpoint, query_string: Some(qs), body: None, accept }, gql: vec![g.clone()], enc: Some(style) }
        };
        for &ep in t.integ.get_endpoints() {
            // the cross-site link: <a href="/graphql?query=mutation{bump}">
            out.push(get(&fixed("mutation{bump}", None, None, Kind::Mutation, json!({"bump": 1}), &["bump"]), ep, 4, None, Shape::GetMutation));
            out.push(get(&fixed("mutation M { bump }", None, None, Kind::Mutation, json!({"bump": 1}), &["bump"]), ep, 0, None, Shape::GetMutation));
            out.push(get(&fixed(mixed, Some("M"), None, Kind::Mutation, json!({"bump": 1}), &["bump"]), ep, 1, None, Shape::GetMutation));
            out.push(get(&fixed(mixed, Some("Q"), None, Kind::Query, json!({"q": 7}), &[]), ep, 1, None, Shape::GetQuery));
            out.push(get(
                &fixed(
                    "mutation($t: String) { a: rename(to: $t) bump }",
                    None,
                    Some(json!({"t": "x y&z=1"})),
                    Kind::Mutation,
                    json!({"a": "x y&z=1", "bump": 1}),
                    &["rename:\"x y&z=1\"", "bump"],
                ),
                ep,
                2,
                None,
                Shape::GetMutation,
            ));
            out.push(get(&fixed("{ q }", None, None, Kind::Query, json!({"q": 7}), &[]), ep, 4, None, Shape::GetQuery));
            if t.integ.multipart_endpoints().contains(&ep) {
                out.push(get(
                    &fixed("mutation{bump}", None, None, Kind::Mutation, json!({"bump": 1}), &["bump"]),
                    ep,
                    0,
                    Some(ACCEPT_MULTIPART),
                    Shape::GetMutation,
                ));
            }
        }
        for &ep in t.integ.post_endpoints() {
            let g = fixed("mutation{bump}", None, None, Kind::Mutation, json!({"bump": 1}), &["bump"]);
            out.push(Spec {
                target: ti,
                shape: Shape::PostMutation,
                http: HttpReq { get: false, endpoint: ep, query_string: None, body: Some(json_body(&g).to_string()), accept: None },
                gql: vec![g],
                enc: None,
            });
        }
    }
    out
}

pub fn run(ctx: &mut Ctx, rt: &Rt, targets: Vec<Target>, not_covered: &[&str]) {
    ctx.rule = "A case is one HTTP request sent in-process through one integration (its ready-made service/handler or a user \
        handler with its single / batch extractor) against a schema whose mutation resolvers write to a log. Documents are \
        generated together with their specification meaning (selected operation, data, resolver calls). Non-trivial: GET \
        requests whose selected operation is a mutation (the property), and control requests that demonstrably executed \
        (GET/POST queries returning their data, POST mutations whose resolver calls were observed in the log)."
        .into();
    ctx.assume("response keys are unique inside an operation (field merging of repeated keys belongs to other properties)");
    ctx.assume("variables are nullable Strings, either provided (a string or null) or omitted with a default (omitted variables without default belong to the coercion properties)");
    ctx.assume("'answered with an error' = non-2xx status, or a GraphQL answer with non-empty errors and no data (for multipart/mixed responses: the single JSON part)");
    ctx.assume("GET batches do not exist: every integration turns a query string into one single request; the batch extractors are exercised with GET (single) and POST (array)");
    ctx.assume("requests that select no operation (unknown operationName / missing name) only need an error answer and an empty log, under both methods");
    ctx.assume("the 'stub' target is a harness-side conforming integration (not code under test); its cases show that the oracle accepts a rejection and are labelled stub:*");
    for n in not_covered {
        ctx.assume(&format!("integration {} is NOT covered: it was not compiled into this run", n));
        ctx.check_case("not-covered", Case::discard(format!("not-covered:{}", n)), Json::Null);
    }
    ctx.note("not_covered", json!(not_covered));
    ctx.note("integrations", json!(targets.iter().map(|t| t.integ.name()).collect::<Vec<_>>()));
    if targets.iter().all(|t| finding_of(t.integ.name()).is_none()) {
        ctx.inconclusive("none of the five integrations is compiled in");
        return;
    }
    for t in &targets {
        if t.open {
            ctx.excluded(finding_of(t.integ.name()).unwrap());
        }
    }

    // 1. witnesses
    let t0 = std::time::Instant::now();
    let ws = witnesses(&targets);
    let n = ws.len() as u64;
    for w in &ws {
        let c = match vcore::drive::catch(|| run_spec(rt, &targets, w)) {
            Ok(c) => c,
            Err(p) => Case::fail(format!("{} {}", targets[w.target].integ.name(), w.http.render()), format!("panic: {}", p)),
        };
        ctx.check_case("witness", c.class("witness"), json!({"request": w.http.render()}));
    }
    ctx.enumerated("witness", n, true, t0);

    // 2. main stream: controls everywhere, GET-mutation requests wherever no finding is open
    let cases = ctx.tier.pick(60_000, 1_500_000);
    ctx.stream("main", cases, 160, |s| {
        let sp = gen_spec(s, &targets, false);
        run_spec(rt, &targets, &sp)
    });
    // 3. probe: GET requests selecting a mutation, every integration
    let cases = ctx.tier.pick(40_000, 1_000_000);
    ctx.stream("probe", cases, 160, |s| {
        let sp = gen_spec(s, &targets, true);
        run_spec(rt, &targets, &sp)
    });

    for t in &targets {
        let n = t.integ.name();
        if n == "stub" {
            ctx.floor("stub:get-mutation:rejected", 100);
            continue;
        }
        ctx.floor(&format!("{}:requests", n), 200);
        ctx.floor(&format!("{}:get-query:executed", n), 40);
        ctx.floor(&format!("{}:get-query:executed:doc-has-mutation", n), 5);
        ctx.floor(&format!("{}:post-mutation:executed", n), 40);
        ctx.floor(&format!("{}:post-batch:mutations-executed", n), 15);
        ctx.floor(&format!("{}:{}", n, if t.open { "get-mutation:known-executed" } else { "get-mutation:rejected" }), 100);
    }
    ctx.floor("doc:operationName", 300);
    ctx.floor("doc:variables", 300);
    ctx.floor("doc:fragment-spread", 100);
    ctx.floor("accept-multipart-mixed", 50);
    for e in ENC_STYLES {
        ctx.floor(e, 100);
    }
}
