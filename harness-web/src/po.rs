//! poem: `GraphQL` endpoint and the two extractors in user handlers, through `Endpoint::get_response`.
use crate::model::{Endpoint as Ep, HttpReq};
use crate::schema::S;
use crate::web::{HttpResp, Integration, Rt};
use async_graphql_poem::{GraphQL, GraphQLBatchRequest, GraphQLBatchResponse, GraphQLRequest, GraphQLResponse};
use poem::http::{header, Method};
use poem::web::Data;
use poem::{handler, Endpoint, EndpointExt, Request, Route};

#[handler]
async fn single(schema: Data<&S>, req: GraphQLRequest) -> GraphQLResponse {
    GraphQLResponse(schema.execute(req.0).await)
}
#[handler]
async fn batch(schema: Data<&S>, req: GraphQLBatchRequest) -> GraphQLBatchResponse {
    GraphQLBatchResponse(schema.execute_batch(req.0).await)
}

pub struct Poem {
    route: poem::endpoint::BoxEndpoint<'static, poem::Response>,
}
impl Poem {
    pub fn new(schema: S) -> Poem {
        let route = Route::new()
            .at("/svc", GraphQL::new(schema.clone()))
            .at("/single", single)
            .at("/batch", batch)
            .data(schema)
            .map_to_response();
        Poem { route: route.boxed() }
    }
}
impl Integration for Poem {
    fn name(&self) -> &'static str {
        "poem"
    }
    fn get_endpoints(&self) -> &'static [Ep] {
        &[Ep::Svc, Ep::Single, Ep::Batch]
    }
    fn post_endpoints(&self) -> &'static [Ep] {
        &[Ep::Svc, Ep::Single, Ep::Batch]
    }
    fn batch_endpoints(&self) -> &'static [Ep] {
        &[Ep::Svc, Ep::Batch]
    }
    fn multipart_endpoints(&self) -> &'static [Ep] {
        &[Ep::Svc]
    }
    fn send(&self, rt: &Rt, req: &HttpReq) -> HttpResp {
        let mut b = Request::builder()
            .method(if req.get { Method::GET } else { Method::POST })
            .uri(req.path_and_query().parse().expect("uri"));
        if let Some(a) = req.accept {
            b = b.header(header::ACCEPT, a);
        }
        if req.body.is_some() {
            b = b.header(header::CONTENT_TYPE, "application/json");
        }
        let preq = b.body(req.body.clone().unwrap_or_default());
        rt.block_on(async {
            let resp = self.route.get_response(preq).await;
            let status = resp.status().as_u16();
            let content_type = resp.content_type().unwrap_or("").to_string();
            let body = resp.into_body().into_vec().await.unwrap_or_default();
            HttpResp { status, content_type, body }
        })
    }
}
