//! Common shape of the integrations under test: an in-process HTTP request goes in, status / content type /
//! complete body come out. One runtime per process.
use crate::model::{Endpoint, HttpReq};
use std::future::Future;

pub struct HttpResp {
    pub status: u16,
    pub content_type: String,
    pub body: Vec<u8>,
}

/// actix-web needs its `System` (a current-thread tokio runtime inside a `LocalSet`); everything else runs on
/// any tokio runtime, so that one is used for all of them when actix is compiled in.
pub struct Rt {
    #[cfg(feature = "actix")]
    sys: actix_web::rt::SystemRunner,
    #[cfg(not(feature = "actix"))]
    rt: tokio::runtime::Runtime,
}
impl Rt {
    pub fn new() -> Rt {
        #[cfg(feature = "actix")]
        {
            Rt { sys: actix_web::rt::System::new() }
        }
        #[cfg(not(feature = "actix"))]
        {
            Rt { rt: tokio::runtime::Builder::new_current_thread().enable_all().build().expect("tokio runtime") }
        }
    }
    pub fn block_on<F: Future>(&self, f: F) -> F::Output {
        #[cfg(feature = "actix")]
        {
            self.sys.block_on(f)
        }
        #[cfg(not(feature = "actix"))]
        {
            self.rt.block_on(f)
        }
    }
}

pub trait Integration {
    fn name(&self) -> &'static str;
    /// endpoints that accept GET
    fn get_endpoints(&self) -> &'static [Endpoint];
    /// endpoints that accept POST with a single request object / with a JSON array
    fn post_endpoints(&self) -> &'static [Endpoint];
    fn batch_endpoints(&self) -> &'static [Endpoint];
    /// endpoints that answer `Accept: multipart/mixed` with a multipart stream
    fn multipart_endpoints(&self) -> &'static [Endpoint];
    fn send(&self, rt: &Rt, req: &HttpReq) -> HttpResp;
}
