//! rocket: `GraphQLQuery` (GET), `GraphQLRequest` and `GraphQLBatchRequest` (POST) in the routes the crate
//! documents, through the asynchronous local client.
use crate::model::{Endpoint, HttpReq};
use crate::schema::S;
use crate::web::{HttpResp, Integration, Rt};
use async_graphql_rocket::{GraphQLBatchRequest, GraphQLQuery, GraphQLRequest, GraphQLResponse};
use rocket::http::{ContentType, Header};
use rocket::local::asynchronous::Client;
use rocket::State;

#[rocket::get("/single?<query..>")]
async fn get_single(schema: &State<S>, query: GraphQLQuery) -> GraphQLResponse {
    query.execute(schema.inner()).await
}
#[rocket::post("/single", data = "<request>")]
async fn post_single(schema: &State<S>, request: GraphQLRequest) -> GraphQLResponse {
    request.execute(schema.inner()).await
}
#[rocket::post("/batch", data = "<request>")]
async fn post_batch(schema: &State<S>, request: GraphQLBatchRequest) -> GraphQLResponse {
    request.execute(schema.inner()).await
}

pub struct Rocket {
    client: Client,
}
impl Rocket {
    pub fn new(rt: &Rt, schema: S) -> Rocket {
        let mut config = rocket::Config::debug_default();
        config.log_level = rocket::config::LogLevel::Off;
        config.cli_colors = false;
        let rocket = rocket::custom(config).manage(schema).mount("/", rocket::routes![get_single, post_single, post_batch]);
        let client = rt.block_on(Client::untracked(rocket)).expect("rocket client");
        Rocket { client }
    }
}
impl Integration for Rocket {
    fn name(&self) -> &'static str {
        "rocket"
    }
    fn get_endpoints(&self) -> &'static [Endpoint] {
        &[Endpoint::Single]
    }
    fn post_endpoints(&self) -> &'static [Endpoint] {
        &[Endpoint::Single, Endpoint::Batch]
    }
    fn batch_endpoints(&self) -> &'static [Endpoint] {
        &[Endpoint::Batch]
    }
    fn multipart_endpoints(&self) -> &'static [Endpoint] {
        &[]
    }
    fn send(&self, rt: &Rt, req: &HttpReq) -> HttpResp {
        rt.block_on(async {
            let uri = req.path_and_query();
            let mut r = if req.get { self.client.get(uri) } else { self.client.post(uri) };
            if let Some(a) = req.accept {
                r = r.header(Header::new("accept", a));
            }
            if let Some(b) = &req.body {
                r = r.header(ContentType::JSON).body(b.clone());
            }
            let resp = r.dispatch().await;
            let status = resp.status().code;
            let content_type = resp.content_type().map(|c| c.to_string()).unwrap_or_default();
            let body = resp.into_bytes().await.unwrap_or_default();
            HttpResp { status, content_type, body }
        })
    }
}
