#!/usr/bin/env python3
"""add_finding.py <finding-id> <property> <open|fixed> <what> [witness] [commit]  — add or update one entry of
/verif/known_findings.json (file-locked; used while building, never by a check at run time)."""
import json, sys, fcntl, os
p = os.path.join(os.path.dirname(os.path.dirname(os.path.abspath(__file__))), "known_findings.json")
fid, prop, status, what = sys.argv[1:5]
witness = sys.argv[5] if len(sys.argv) > 5 else ""
commit = sys.argv[6] if len(sys.argv) > 6 else None
with open(p, "r+") as f:
    fcntl.flock(f, fcntl.LOCK_EX)
    d = json.load(f)
    d["findings"] = [x for x in d["findings"] if x["id"] != fid]
    e = {"id": fid, "property": prop, "status": status, "what": what, "witness": witness}
    if status == "fixed":
        e["commit"] = commit or "?"
        e["line"] = f"fixed: property={prop} {commit} {what}"
    d["findings"].append(e)
    d["findings"].sort(key=lambda x: x["id"])
    f.seek(0); f.truncate(); json.dump(d, f, indent=1); f.write("\n")
print("ok", fid, status)
