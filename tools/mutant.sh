#!/bin/bash
# tools/mutant.sh <scratch-name> <patch-file|-> <ID> [tier] [more IDs...]
# Runs check(s) against a scratch copy of /repo with a patch applied (sensitivity mutants, seeded changes),
# without touching /repo or /verif. Everything lives under /tmp/vp-mut-<name> and is deleted afterwards
# (keep with KEEP=1). FEATURES=c13,c14 builds only those modules. Prints "MUTANT <name> <ID> exit=<code>" per check.
set -u
NAME="$1"; PATCH="$2"; shift 2
[ "$PATCH" != "-" ] && PATCH="$(readlink -f "$PATCH")"
IDS=(); TIER=quick
for a in "$@"; do case "$a" in quick|thorough) TIER="$a";; *) IDS+=("$a");; esac; done
S=/tmp/vp-mut-$NAME
rm -rf "$S"; mkdir -p "$S/verif"
rsync -a --exclude target --exclude .git /repo/ "$S/repo/"
if [ "$PATCH" != "-" ]; then
  (cd "$S/repo" && patch -p1 --no-backup-if-mismatch < "$PATCH") || { echo "MUTANT $NAME patch failed"; rm -rf "$S"; exit 3; }
fi
rsync -a --exclude target --exclude 'target-*' /verif/harness "$S/verif/"
[ -d /verif/harness-web ] && rsync -a /verif/harness-web "$S/verif/"
cp -r /verif/known_findings.json /verif/corpus /verif/findings "$S/verif/" 2>/dev/null
find "$S/verif" -name Cargo.toml -o -name config.toml | xargs sed -i "s#\"/repo#\"$S/repo#g; s#/verif/target#$S/target#g"
export CARGO_NET_OFFLINE=true VERIF_ROOT="$S/verif" CARGO_TARGET_DIR="$S/target"
rc_all=0
FEAT=""; [ -n "${FEATURES:-}" ] && FEAT="--no-default-features --features $FEATURES"
(cd "$S/verif/harness" && cargo build --release --offline -q -p vcheck $FEAT 2>"$S/build.log") || { tail -30 "$S/build.log"; echo "MUTANT $NAME build failed"; [ "${KEEP:-0}" = 1 ] || rm -rf "$S"; exit 4; }
for ID in "${IDS[@]}"; do
  "$S/target/release/vcheck" "$ID" "$TIER" > "$S/out-$ID.log" 2>&1; rc=$?
  grep -E "^(VIOLATION|KNOWN-FINDING|INCONCLUSIVE)" "$S/out-$ID.log" | head -5
  grep -E "^  (stream|case)=" "$S/out-$ID.log" | head -4 | cut -c1-400
  tail -1 "$S/out-$ID.log" | cut -c1-300
  echo "MUTANT $NAME $ID exit=$rc"
done
[ "${KEEP:-0}" = 1 ] || rm -rf "$S"
