#!/usr/bin/env python3
"""Render known_findings.json as markdown tables (for BUILD-NOTES.md section 3)."""
import json, os
ROOT = os.path.dirname(os.path.dirname(os.path.abspath(__file__)))
d = json.load(open(os.path.join(ROOT, "known_findings.json")))
fs = sorted(d["findings"], key=lambda f: (f["property"], int(f["id"].split("-F")[1])))
def cell(s): return str(s).replace("|", "\\|").replace("\n", " ")
print("### Open findings (printed as KNOWN-FINDING by the checks; exact quirk implemented in the oracle)\n")
print("| id | what fails |")
print("|---|---|")
for f in fs:
    if f["status"] == "open":
        print(f"| {f['id']} | {cell(f['what'])} |")
print("\n### Fixed findings (one `fix:` commit each in /repo; no quirk, so a return of the defect is a violation)\n")
print("| id | commit | what failed |")
print("|---|---|---|")
for f in fs:
    if f["status"] == "fixed":
        print(f"| {f['id']} | {f.get('commit','?')} | {cell(f['what'])} |")
