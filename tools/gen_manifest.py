#!/usr/bin/env python3
"""Regenerates /verif/MANIFEST.json from the table below (single source of truth for claimed checks)."""
import json, os
ROOT = os.path.dirname(os.path.dirname(os.path.abspath(__file__)))
props = [json.loads(l) for l in open(os.path.join(ROOT, "properties.jsonl"))]

E = "exploration"
# id -> (category, technique, what the level gives, trusted base / assumptions)
CHECKS = {
 "C09": (E, "proptest with rule-targeted mutation operators, differential against a reference validator written from spec section 5",
   "Valid documents (typed generator) and invalid variants from 27 rule-targeted operators on random dynamic schemas and a derive-built schema; the reference validator (31 rules + variable coercion) decides validity and names the rule; invalid => errors with locations and no resolver ran, valid => the validation hook passes; every rule class has a floor in the evidence histogram.",
   "Trusts the reference validator (vgql::refvalidate). Each open finding is a quirk switch of that validator: a deviation is attributed only if the quirks predict exactly the observed verdict. Uploads, integral floats for Int, RFC-only oneOf variable rules are outside the domain."),
 "C18": (E, "proptest + enumerated visibility contexts: introspection response rebuilt into a client schema and compared with the source schema, the SDL and execution",
   "The standard introspection query runs on generated dynamic schemas, static Z and a visibility schema W with 15 request-data capabilities (corner contexts enumerated, random contexts beyond; all 2^15 in the thorough tier); the rebuilt client schema must be self-consistent, equal the expectation restricted to the visible elements, equal the SDL read-back, documents generated from it must execute, and no sentinel of a hidden element may occur.",
   "Expectation tables for Z and W are hand-written SDL. Only coherent visibility configurations; unreferenced types are outside the domain; selecting hidden fields is documented as allowed."),
 "C19": (E, "bounded-exhaustive over the 3x3 mode matrix x flavour x operation kind with proptest documents per cell (sentinel search + empty resolver log)",
   "All 54 cells (schema mode x request mode x static/dynamic federation schema x query/mutation/subscription) each get thousands of documents mixing __schema, __type, __typename, _service, _entities and ordinary fields; disabled => no schema metadata sentinel anywhere in the response; introspection-only => resolver log empty; __typename always the right name.",
   "Metadata recognised by sentinel names; a validation rejection of __schema under a disabled schema is allowed."),
 "C12": (E, "proptest + adversarial size families, each case on a 2 MiB-stack thread inside a child process (crash / abort / work oracle)",
   "Grammar-aware and character-level mutations of query text, 22 adversarial families at sizes up to 20k (quick) / 1M (thorough), random and forged variables (upload markers), operation names, extensions, GET query strings, JSON bodies and batches, damaged multipart bodies and websocket frames against a schema using every built-in input type; a case must return, not panic, not abort (seen through the child's exit status and a marker file) and stay under a generous checking-work bound.",
   "Stack budget 2 MiB (tokio worker default). 'No hang' is decided through the verif-hooks work counter and a parent watchdog (exit 2). Fragment fan-out is C11's subject."),
 "C35": (E, "proptest over GET/POST requests through the five bundled integrations in-process (mutation log oracle)",
   "100k generated requests per quick run (mutation documents, mixed documents selected by operationName, variables, five percent-encoding styles, single and batch extractors, multipart/mixed Accept) through axum, actix-web, poem, warp and rocket; after a GET selecting a mutation the resolver log must be unchanged and the answer must be an error; GET queries and POST mutations must keep working (non-vacuity).",
   "Separate crate harness-web (binary vweb). A harness-side stub integration shows the oracle accepts a rejection. If a framework fails to build offline it is reported as not covered."),
 "C27": (E, "proptest over gate-opening schedules of a deterministic executor, per-event reference execution",
   "Subscriptions with one and two root fields, 0-3 events each, nullable failing sub-fields gated by the deterministic executor; every response must carry one root key and equal the reference execution of its own event, errors must belong to that event; streamed queries/mutations on Z must yield exactly one response equal to the reference.",
   "Two root fields are outside the specification; while C27-F1 is open they run only in a probe stream that checks the exact quirk (errors conserved but possibly attached to another root field's event)."),
 "C06": (E, "proptest against reference input coercion (spec 6.1.2, 6.4.1, oneOf) with typed echo resolvers",
   "One echo field per argument type (scalars, enum, nested lists, input objects with defaults/Option/MaybeUndefined fields, oneOf) x supply mode (right/arbitrary literal, variable provided/null/omitted with or without default, nested variables, single value for list, omitted argument); 400k cases per quick run; the resolver must have run once with exactly the reference-coerced value (canonical form distinguishing undefined/null/value) or the request must fail without invoking it.",
   "Static (typed) resolvers only. Variables are declared with the type of their position; unknown field names in literals and ill-typed default literals are validation matters (C09)."),
 "C01": (E, "proptest differential vs reference executor on a derive-built schema (data worlds, typed documents)",
   "44k (world, document, variables) cases per quick run on static schema Z (two interfaces, two unions, renamed enum item, all list/nullability wrappers); data compared exactly and errors by path+location with an executor written from spec section 6; classes for union/interface conditions, nested fragments, defaulted directive variables, repeated keys have floors.",
   "The Sch mirror of Z is read from Z's own SDL by the reference parser (SDL fidelity is C17's subject). Documents valid by construction."),
 "C03": ("fault_enumeration", "fault enumeration over every resolved position x fault kind (+ pairs) against the reference executor",
   "For each generated tree EVERY (node, field) touched by the fault-free execution is failed once per applicable fault kind (resolver error; dynamic: invalid enum/custom-scalar value, nothing for non-null), plus all fault pairs for small trees; ~60k single and ~40k pair executions per quick run over static Z, its dynamic mirror and random dynamic schemas.",
   "Guard rejections not injected; repeated response keys excluded while C04-F1 is open (their errors are reported once per occurrence)."),
 "C04": (E, "proptest with invocation-log invariant (resolve-once) and schedule exploration for mutation seriality",
   "Resolver starts per response path are counted on static and dynamic schemas for documents with repeated keys; mutation root fields are run with every resolver gated under generated gate orders and the log must show root field i completely finished before root field i+1 starts.",
   "C04-F1 (occurrences executed separately) is open: main streams exclude repeated keys, probe streams require the log to match the exact per-occurrence quirk model."),
 "C05": (E, "bounded-exhaustive enumeration of completion orders (all priority orders of <=6 gated resolvers) + generated orders, metamorphic + reference",
   "2000 documents x all k! gate priority orders (k<=6) and 4000 documents x 8 generated orders with all resolvers gated (~150k gated executions per quick run), failing resolvers at nullable positions; data and error multiset must be order-independent and equal to the reference.",
   "Deterministic single-threaded executor owns the schedule; failing non-null siblings excluded (they legitimately race)."),
 "C02": (E, "proptest differential vs reference executor (random dynamic schemas, worlds, typed documents)",
   "Every case builds a random dynamic type system, a data world valid for it and a valid document with variables, executes it and compares data exactly and errors by path+location with an executor written from spec section 6. Search over tens of thousands of (schema, world, document) triples with shrinking; no absence proof.",
   "Trusts the harness's reference executor/coercion and that generated documents are valid (by construction). Null items in lists of composite type are not expressible in the dynamic API and are out of domain."),
 "C07": (E, "bounded-exhaustive enumeration (8/16-bit domains) + proptest with domain predicate and round trip",
   "All i8/u8/i16/u16 (+NonZero) values and every integer in -70000..70000 are offered to each small type exhaustively; wider types, floats, chars, IDs and enums get boundary-dense and random values; accept-exactly and round-trip are both asserted.",
   "Observes the InputType/ScalarType trait API. Open classes (integral floats to integer types, huge integers to ID) accept either answer with exact value."),
 "C08": (E, "proptest + deterministic bound sweeps against an exact-arithmetic predicate",
   "Each validator kind x type x mode (strict/fast) x literal/variable supply is swept around every bound and driven with 400k random queries; resolver invoked iff predicate holds in i128 / exact float arithmetic.",
   "Bounds are compile-time literals mirrored in a table; multiple_of with 0 excluded; regex limited to three fixed patterns."),
 "C13": (E, "proptest: generated ASTs printed with random trivia must parse to the same tree; near-miss mutations judged by an independent reference parser (differential)",
   "Positive and negative direction: 90k+ documents per quick run (executable and type-system), strings with escapes/block strings, all trivia kinds; acceptance must equal the reference parser's and trees must be equal when both accept.",
   "Trusts the reference parser (written from the Oct-2021 grammar; self-checked against the printer on every positive case). Don't-care: raw control characters, \\u{...} escapes, duplicate definitions, numbers outside the 64-bit model, nesting depth 65."),
 "C14": (E, "proptest with the printer's own (line, column) table as oracle",
   "Every positioned node of the parsed tree, validation and execution error locations on a mini schema, and syntax-error positions of an inserted illegal character are compared with positions recorded while printing documents with LF/CRLF/lone-CR, tabs, BOMs, comments and non-ASCII text.",
   "Operation/fragment name positions are not kept by the tree and not checked. Argument errors may point at the argument name or its value."),
 "C15": (E, "proptest round-trip (print->parse, to-JSON->from-JSON) over generated value trees",
   "Hundreds of thousands of value trees per run whose strings cover control, quote, backslash and non-BMP classes and whose numbers cover the i64/u64/f64 ranges; structural bit-exact equality after the round trip.",
   "Uses async-graphql's own parser as the inverse (as the property states). Binary values excluded as in the statement."),
 "C16": (E, "proptest round-trip over a family of serde types covering the data model",
   "A fixed family of Serialize+Deserialize types (all struct/enum variant shapes, options, maps, sequences, tuples, integer widths, floats, bytes) nested to depth 4; from_value(to_value(v)) == v on ~1M values per quick run.",
   "Out of domain: non-finite floats, char, 128-bit integers, Option<Option<_>>."),
 "C20": (E, "proptest safety/exactness oracle over a hinted schema + exhaustive algebraic laws over policy tuples",
   "Random documents through object/interface/union fields on a schema with every hint class; the response policy must be at least as restrictive as every contributing type/field (exact for object-only documents); merge laws exhaustive over all 1-3-tuples of a policy value set.",
   "Which types contributed data is computed from the harness's own data-driven resolvers."),
 "C21": (E, "proptest sentinel search in stringified documents",
   "Documents place unique sentinels in every secret position (literal, variable, lists, nested input objects, fragments, defaults); the text from ExtensionContext::stringify_execute_doc and the Logger extension must not contain any secret sentinel while non-secret sentinels remain visible.",
   "Tracing-extension output is not captured (feature not enabled)."),
 "C23": (E, "proptest encode/decode agreement across transports + exhaustive completion orders for batches",
   "Each random request is encoded as JSON body, batch element, GET query string and multipart operations part and must decode to the same request; ten malformed families must be rejected; execute_batch keeps order under every completion order (exhaustive up to 5 requests).",
   "Own percent-encoder / multipart writer; invalid percent escapes are don't-care."),
 "C24": (E, "proptest against a reference binding model for multipart uploads",
   "Generated multipart bodies (batch paths, several paths per file, permuted parts, missing/extra files, sizes around limits, chunked delivery) are decoded and every mapped position is read back through an Upload argument.",
   "Unresolvable map paths are don't-care; only Err is required for limit violations."),
 "C25": (E, "bounded-exhaustive enumeration of client/stream/timer scripts + proptest, judged by a protocol monitor",
   "All scripts up to length 5 (quick) / 6 (thorough) for both websocket protocols plus random scripts to length 30 run against a fake Executor on a deterministic executor; a monitor written from the protocol documents checks ack-before-output, live ids, single complete, close codes and silence after close.",
   "Server polled explicitly (no liveness); several protocol details outside the statement are don't-care (listed in evidence)."),
 "C26": (E, "bounded-exhaustive interleavings + proptest, judged by an independent multipart/mixed reader",
   "All interleavings of response/timer/end events up to 7 (quick) / 9 (thorough) with partial polls; parts must be the responses in order exactly once, heartbeats {} parts, one closing delimiter last.",
   "select! branch order is random in the code under test; the oracle accepts either order of simultaneous events."),
 "C28": (E, "bounded-exhaustive DFS over schedules of a deterministic executor + proptest schedules",
   "Every action sequence for <=3 concurrent load_many requests over 3 keys, batch sizes 1-3, three cache modes and three loader scripts (1.7M runs) plus random larger configurations; result/batch invariants checked at quiescence.",
   "Liveness only as 'nothing pending at quiescence'; real multi-threaded races inside scc are out of reach of this technique."),
 "C29": (E, "proptest histories against a reference cache model run in lock-step (set of possible LRU states)",
   "300k histories of load/feed/clear/enable operations over NoCache, HashMapCache and LruCache(1-4); every observation must be consistent with at least one model state; no operation may panic.",
   "Insertion order of a multi-key batch into an LRU is unspecified and modelled as a set of states."),
 "C31": (E, "proptest histories against a hash->text reference model",
   "Histories of registrations, hash-only lookups, wrong hashes/versions and malformed payloads; the executed document (identified by echoed constants) must be the one hashing to the supplied hash or PersistedQueryNotFound.",
   "SHA-256 from the sha2 crate; eviction allowed at any time."),
 "C32": (E, "exhaustive small domains + proptest round-trip and argument-validity oracle",
   "All i8/u8/i16/u16/bool cursors and most chars exhaustively, random values of every CursorType incl. OpaqueCursor, random cursor strings, page-info cursors on an executed schema, and query_with closure-called-iff-valid.",
   "NaN compared by class; which error is reported for several invalid arguments is don't-care."),
 "C34": (E, "proptest with a browser-like evaluator (HTML tokenizer + JS string-literal evaluator) as oracle",
   "Configuration strings over quotes, ampersands, angle brackets, backslashes, line terminators, </script and non-ASCII; every configured literal must end at the template's own quote and evaluate to exactly the configured value.",
   "HTML named character references other than the XML five are not modelled."),
}
NA_REASON = "check not built yet in this session (planned in DESIGN.md section 7); not claimed until its oracle exists and has been validated against mutants"

checks, na = [], []
for p in props:
    i = p["id"]
    if i in CHECKS:
        cat, tech, text, note = CHECKS[i]
        checks.append({
            "property_id": i,
            "quick_cmd": f"./check {i} quick",
            "thorough_cmd": f"./check {i} thorough",
            "evidence_file": f"/verif/evidence/{i}.json",
            "replay_cmd_template": f"./check {i} quick --replay {{path}}",
            "engine": "vcheck-web" if i == "C35" else "vcheck",
            "level_claimed": {"category": cat, "text": text, "design_ref": f"DESIGN.md section 4, {i}"},
            "level_note": note,
            "technique": tech,
        })
    else:
        na.append({"property_id": i, "reason": NA_REASON})

manifest = {
 "version": 1,
 "setup_cmd": "cd /verif/harness && CARGO_NET_OFFLINE=true cargo build --release --offline -p vcheck && cd /verif/harness-web && CARGO_NET_OFFLINE=true cargo build --release --offline",
 "hooks": {
   "guard": "cargo feature `verif-hooks` on the async-graphql crate",
   "enable": "the harness depends on async-graphql by path (/repo); checks that need the work counter enable the feature `verif-hooks`; every ./check run rebuilds from the current tree",
   "baseline_off_cmd": "cd /repo && cargo test --workspace --no-fail-fast --offline",
   "source_commits": ["14a5ced"],
   "add_only": True,
 },
 "engines": [
   {"name": "vcheck", "path": "/verif/harness", "serves_properties": [c["property_id"] for c in checks if c["engine"] == "vcheck"],
    "kind_free_text": "Rust binary: generators are interpreters over a u32 choice stream driven by proptest's TestRunner (fixed seed from VERIF_SEED, shrinking, replay files), bounded-exhaustive enumerators, a deterministic single-threaded executor for schedules, and reference oracles written from the GraphQL specification"},
   {"name": "vcheck-web", "path": "/verif/harness-web", "serves_properties": ["C35"], "kind_free_text": "Rust binary vweb: the five web-framework integrations driven in-process on one tokio runtime; same vcore driver (proptest choice streams, evidence, known findings)"},
 ],
 "checks": checks,
 "not_applicable": na,
 "notes": "Every check: `./check <ID> <quick|thorough>` rebuilds the harness against /repo's working tree (cargo, offline), runs, rewrites evidence/<ID>.json, prints VIOLATION/KNOWN-FINDING lines. Exit 0 held, 1 violation, 2 inconclusive (build failure, watchdog, degenerate generator). Known findings: /verif/known_findings.json.",
}
json.dump(manifest, open(os.path.join(ROOT, "MANIFEST.json"), "w"), indent=1)
print("claimed:", [c["property_id"] for c in checks])
