#!/usr/bin/env python3
"""Regenerates /verif/MANIFEST.json from the table below (single source of truth for claimed checks)."""
import json, os, sys
ROOT = os.path.dirname(os.path.dirname(os.path.abspath(__file__)))
props = [json.loads(l) for l in open(os.path.join(ROOT, "properties.jsonl"))]

# id -> (category, technique, level text, level note, design ref)
CHECKS = {
 "C15": ("exploration",
         "proptest round-trip (print->parse, to-JSON->from-JSON) over generated value trees",
         "Generated-input search: every run draws hundreds of thousands of value trees whose strings cover control, quote, backslash and non-BMP classes and whose numbers cover the i64/u64/f64 ranges, and demands structural, bit-exact equality after the round trip. It cannot prove absence, but the input space of a printer is flat (no deep state), so dense random coverage of character and number classes is the right level.",
         "Trusts the harness's strict equality function and async-graphql's own parser as the inverse (that is what the property states). Binary values excluded as in the statement.",
         "DESIGN.md §4 C15"),
}
PENDING_REASON = "check not built yet in this session (planned in DESIGN.md §7); not claimed until its oracle exists and has been validated against mutants"

checks, na = [], []
for p in props:
    i = p["id"]
    if i in CHECKS:
        cat, tech, text, note, ref = CHECKS[i]
        checks.append({
            "property_id": i,
            "quick_cmd": f"./check {i} quick",
            "thorough_cmd": f"./check {i} thorough",
            "evidence_file": f"/verif/evidence/{i}.json",
            "replay_cmd_template": f"./check {i} quick --replay {{path}}",
            "engine": "vcheck-web" if i == "C35" else "vcheck",
            "level_claimed": {"category": cat, "text": text, "design_ref": ref},
            "level_note": note,
            "technique": tech,
        })
    else:
        na.append({"property_id": i, "reason": NA.get(i, PENDING_REASON) if (NA := globals().get("NA_REASONS", {})) is not None else PENDING_REASON})

manifest = {
 "version": 1,
 "setup_cmd": "cd /verif/harness && CARGO_NET_OFFLINE=true cargo build --release --offline -p vcheck",
 "hooks": {
   "guard": "cargo feature `verif-hooks` on the async-graphql crate",
   "enable": "the harness depends on async-graphql by path (/repo) with features = [..., \"verif-hooks\"]; every ./check run rebuilds it from the current tree",
   "baseline_off_cmd": "cd /repo && cargo test --workspace --no-fail-fast --offline",
   "source_commits": HOOK_COMMITS if (HOOK_COMMITS := globals().get("HOOKS", [])) is not None else [],
   "add_only": True,
 },
 "engines": [
   {"name": "vcheck", "path": "/verif/harness", "serves_properties": [c["property_id"] for c in checks if c["engine"] == "vcheck"],
    "kind_free_text": "Rust binary: generators are interpreters over a u32 choice stream driven by proptest's TestRunner (fixed seed from VERIF_SEED, shrinking, replay files), bounded-exhaustive enumerators, a deterministic single-threaded executor for schedules, and reference oracles written from the GraphQL specification"},
 ],
 "checks": checks,
 "not_applicable": na,
 "notes": "Every check: `./check <ID> <quick|thorough>` rebuilds the harness against /repo's working tree (cargo, offline), runs, rewrites evidence/<ID>.json, prints VIOLATION/KNOWN-FINDING lines. Exit 0 held, 1 violation, 2 inconclusive (build failure, watchdog, degenerate generator). Known findings: /verif/known_findings.json.",
}
json.dump(manifest, open(os.path.join(ROOT, "MANIFEST.json"), "w"), indent=1)
print("claimed:", [c["property_id"] for c in checks])
