#!/usr/bin/env python3
"""mkmutant.py <ID> <name> <file-relative-to-/repo> <<< 'OLD\n=====\nNEW'  — writes /verif/mutants/<ID>/<name>.diff"""
import sys, os, subprocess, tempfile
pid, name, rel = sys.argv[1:4]
old, new = sys.stdin.read().split("\n=====\n")
new = new.rstrip("\n") if not new.endswith("\n\n") else new
src = open(os.path.join("/repo", rel)).read()
old = old.strip("\n"); new = new.strip("\n")
assert src.count(old) == 1, f"old text occurs {src.count(old)} times"
with tempfile.TemporaryDirectory() as d:
    a = os.path.join(d, "a"); b = os.path.join(d, "b")
    os.makedirs(os.path.dirname(os.path.join(a, rel))); os.makedirs(os.path.dirname(os.path.join(b, rel)))
    open(os.path.join(a, rel), "w").write(src); open(os.path.join(b, rel), "w").write(src.replace(old, new))
    out = subprocess.run(["diff", "-u", "a/" + rel, "b/" + rel], cwd=d, capture_output=True, text=True).stdout
os.makedirs(f"/verif/mutants/{pid}", exist_ok=True)
open(f"/verif/mutants/{pid}/{name}.diff", "w").write(out)
print(f"/verif/mutants/{pid}/{name}.diff", len(out.splitlines()), "lines")
