#!/bin/bash
# tools/run_all.sh <seed> [tier]  — runs every claimed check once (after one build), prints one line per check
cd /verif; SEED="${1:-0}"; TIER="${2:-quick}"
IDS=$(jq -r '.checks[].property_id' MANIFEST.json)
(cd harness && cargo build --release --offline -q -p vcheck 2>/dev/null) || { echo "BUILD FAILED"; exit 2; }
for id in $IDS; do
  t0=$(date +%s)
  if [ "$id" = "C35" ]; then VERIF_SEED=$SEED ./check C35 $TIER > /tmp/runall-$id.log 2>&1; rc=$?; else VERIF_SEED=$SEED ./target/release/vcheck $id $TIER > /tmp/runall-$id.log 2>&1; rc=$?; fi
  t1=$(date +%s)
  echo "seed=$SEED $id exit=$rc $((t1-t0))s known=$(grep -c '^KNOWN-FINDING' /tmp/runall-$id.log) viol=$(grep -c '^VIOLATION' /tmp/runall-$id.log) $(grep -E '^INCONCLUSIVE' /tmp/runall-$id.log | head -1 | cut -c1-120)"
done
